//! avfacts — exports the type-checked program (MIR, signatures, ADTs, impls, API surface)
//! of the crate being compiled as one JSON fact file. Export only; all judgement lives in
//! /verif/avlint (Python).
//!
//! Used as RUSTC_WORKSPACE_WRAPPER: argv = [avfacts, <rustc>, args...].
//! Writes to $AVFACTS_OUT when the crate name equals $AVFACTS_CRATE (default "any_vec").
#![feature(rustc_private)]

extern crate rustc_abi;
extern crate rustc_driver;
extern crate rustc_hir;
extern crate rustc_interface;
extern crate rustc_middle;
extern crate rustc_session;
extern crate rustc_span;

use rustc_driver::Compilation;
use rustc_hir::def::DefKind;
use rustc_hir::def_id::{DefId, LOCAL_CRATE};
use rustc_interface::interface::Compiler;
use rustc_middle::mir::{
    self, AggregateKind, BasicBlock, Body, CastKind, Const, Operand, Place, PlaceElem, Rvalue,
    StatementKind, TerminatorKind, UnwindAction,
};
use rustc_middle::ty::{self, GenericArgKind, Instance, Ty, TyCtxt, TypingEnv};
use std::fmt::Write as _;

/// `<out as Iterator>::Item`, normalised in the environment of `owner`, when `out` implements Iterator
fn iterator_item_of<'tcx>(tcx: TyCtxt<'tcx>, owner: DefId, out: Ty<'tcx>) -> Option<Ty<'tcx>> {
    if !matches!(out.kind(), ty::Adt(..)) {
        return None;
    }
    let tr = tcx.get_diagnostic_item(rustc_span::sym::Iterator)?;
    let mut next = None;
    let mut item = None;
    for it in tcx.associated_items(tr).in_definition_order() {
        match it.name().as_str() {
            "next" => next = Some(it.def_id),
            "Item" => item = Some(it.def_id),
            _ => {}
        }
    }
    let (next, item) = (next?, item?);
    let typing_env = TypingEnv::post_analysis(tcx, owner);
    let out_e = tcx.erase_and_anonymize_regions(out);
    let args = tcx.mk_args(&[out_e.into()]);
    match Instance::try_resolve(tcx, typing_env, next, args) {
        Ok(Some(_)) => {}
        _ => return None,
    }
    let proj = Ty::new_projection(tcx, item, args);
    tcx.try_normalize_erasing_regions(typing_env, ty::Unnormalized::new_wip(proj)).ok()
}

// ------------------------------------------------------------------ JSON

enum J {
    Null,
    Bool(bool),
    Num(i128),
    Str(String),
    Arr(Vec<J>),
    Obj(Vec<(&'static str, J)>),
}

fn s<T: Into<String>>(x: T) -> J {
    J::Str(x.into())
}

fn esc(out: &mut String, x: &str) {
    out.push('"');
    for c in x.chars() {
        match c {
            '"' => out.push_str("\\\""),
            '\\' => out.push_str("\\\\"),
            '\n' => out.push_str("\\n"),
            '\r' => out.push_str("\\r"),
            '\t' => out.push_str("\\t"),
            c if (c as u32) < 0x20 => {
                let _ = write!(out, "\\u{:04x}", c as u32);
            }
            c => out.push(c),
        }
    }
    out.push('"');
}

impl J {
    fn write(&self, out: &mut String) {
        match self {
            J::Null => out.push_str("null"),
            J::Bool(b) => out.push_str(if *b { "true" } else { "false" }),
            J::Num(n) => {
                let _ = write!(out, "{}", n);
            }
            J::Str(x) => esc(out, x),
            J::Arr(v) => {
                out.push('[');
                for (i, x) in v.iter().enumerate() {
                    if i > 0 {
                        out.push(',');
                    }
                    x.write(out);
                }
                out.push(']');
            }
            J::Obj(v) => {
                out.push('{');
                for (i, (k, x)) in v.iter().enumerate() {
                    if i > 0 {
                        out.push(',');
                    }
                    esc(out, k);
                    out.push(':');
                    x.write(out);
                }
                out.push('}');
            }
        }
    }
}

// ------------------------------------------------------------------ helpers

struct Cx<'tcx> {
    tcx: TyCtxt<'tcx>,
}

impl<'tcx> Cx<'tcx> {
    fn path(&self, did: DefId) -> String {
        self.tcx.def_path_str(did)
    }

    fn span(&self, sp: rustc_span::Span) -> J {
        let sm = self.tcx.sess.source_map();
        let lo = sm.lookup_char_pos(sp.lo());
        let hi = sm.lookup_char_pos(sp.hi());
        let file = match &lo.file.name {
            rustc_span::FileName::Real(r) => r
                .local_path()
                .map(|p| p.display().to_string())
                .unwrap_or_else(|| format!("{:?}", lo.file.name)),
            other => format!("{:?}", other),
        };
        J::Obj(vec![
            ("file", s(file)),
            ("line", J::Num(lo.line as i128)),
            ("end_line", J::Num(hi.line as i128)),
            ("expn", J::Bool(sp.from_expansion())),
        ])
    }

    fn ty(&self, t: Ty<'tcx>) -> J {
        self.ty_d(t, 0)
    }

    fn ty_d(&self, t: Ty<'tcx>, d: usize) -> J {
        let printed = format!("{}", t);
        if d > 6 {
            return J::Obj(vec![("s", s(printed)), ("k", s("deep"))]);
        }
        let mut o: Vec<(&'static str, J)> = vec![("s", s(printed))];
        match t.kind() {
            ty::Bool => o.push(("k", s("bool"))),
            ty::Char => o.push(("k", s("char"))),
            ty::Int(i) => {
                o.push(("k", s("int")));
                o.push(("name", s(i.name_str())));
            }
            ty::Uint(u) => {
                o.push(("k", s("uint")));
                o.push(("name", s(u.name_str())));
            }
            ty::Float(_) => o.push(("k", s("float"))),
            ty::Never => o.push(("k", s("never"))),
            ty::Str => o.push(("k", s("str"))),
            ty::RawPtr(to, m) => {
                o.push(("k", s("ptr")));
                o.push(("mut", J::Bool(m.is_mut())));
                o.push(("to", self.ty_d(*to, d + 1)));
            }
            ty::Ref(r, to, m) => {
                o.push(("k", s("ref")));
                o.push(("mut", J::Bool(m.is_mut())));
                o.push(("region", s(format!("{:?}", r))));
                o.push(("to", self.ty_d(*to, d + 1)));
            }
            ty::Adt(adt, args) => {
                o.push(("k", s("adt")));
                o.push(("path", s(self.path(adt.did()))));
                o.push(("args", self.gargs(args, d + 1)));
            }
            ty::Param(p) => {
                o.push(("k", s("param")));
                // anonymous `impl Trait` parameters all print as their bound: make the name unique with the parameter index
                let nm = p.name.as_str();
                if nm.starts_with("impl ") {
                    o.push(("name", s(format!("{}#{}", nm, p.index))));
                } else {
                    o.push(("name", s(nm)));
                }
            }
            ty::Alias(a) => {
                o.push(("k", s("alias")));
                o.push(("path", s(self.path(a.kind.def_id()))));
                o.push(("args", self.gargs(a.args, d + 1)));
            }
            ty::FnPtr(..) => o.push(("k", s("fnptr"))),
            ty::FnDef(did, args) => {
                o.push(("k", s("fndef")));
                o.push(("path", s(self.path(*did))));
                o.push(("args", self.gargs(args, d + 1)));
            }
            ty::Closure(did, _) => {
                o.push(("k", s("closure")));
                o.push(("path", s(self.path(*did))));
            }
            ty::Tuple(ts) => {
                o.push(("k", s("tuple")));
                o.push(("elems", J::Arr(ts.iter().map(|x| self.ty_d(x, d + 1)).collect())));
            }
            ty::Array(e, n) => {
                o.push(("k", s("array")));
                o.push(("to", self.ty_d(*e, d + 1)));
                o.push(("len", s(format!("{}", n))));
            }
            ty::Slice(e) => {
                o.push(("k", s("slice")));
                o.push(("to", self.ty_d(*e, d + 1)));
            }
            ty::Dynamic(..) => o.push(("k", s("dyn"))),
            _ => o.push(("k", s("other"))),
        }
        J::Obj(o)
    }

    fn gargs(&self, args: ty::GenericArgsRef<'tcx>, d: usize) -> J {
        J::Arr(
            args.iter()
                .map(|a| match a.kind() {
                    GenericArgKind::Type(t) => self.ty_d(t, d),
                    GenericArgKind::Lifetime(r) => {
                        J::Obj(vec![("k", s("region")), ("s", s(format!("{:?}", r)))])
                    }
                    GenericArgKind::Const(c) => {
                        J::Obj(vec![("k", s("const")), ("s", s(format!("{}", c)))])
                    }
                })
                .collect(),
        )
    }

    fn place(&self, body: &Body<'tcx>, p: &Place<'tcx>) -> J {
        let tcx = self.tcx;
        let mut proj = Vec::new();
        let mut pty = mir::PlaceTy::from_ty(body.local_decls[p.local].ty);
        for elem in p.projection.iter() {
            let j = match elem {
                PlaceElem::Deref => s("deref"),
                PlaceElem::Field(f, fty) => {
                    let name = match pty.ty.kind() {
                        ty::Adt(adt, _) => {
                            let v = match pty.variant_index {
                                Some(vi) => adt.variant(vi),
                                None => {
                                    if adt.is_enum() {
                                        // should not happen without downcast
                                        adt.variant(rustc_abi::VariantIdx::from_u32(0))
                                    } else {
                                        adt.non_enum_variant()
                                    }
                                }
                            };
                            v.fields[f].name.to_string()
                        }
                        _ => format!("{}", f.as_u32()),
                    };
                    J::Obj(vec![
                        ("field", s(name)),
                        ("idx", J::Num(f.as_u32() as i128)),
                        ("ty", self.ty(fty)),
                        ("of", s(format!("{}", pty.ty))),
                    ])
                }
                PlaceElem::Downcast(name, vi) => J::Obj(vec![
                    (
                        "downcast",
                        s(name.map(|n| n.to_string()).unwrap_or_else(|| format!("{}", vi.as_u32()))),
                    ),
                    ("idx", J::Num(vi.as_u32() as i128)),
                ]),
                PlaceElem::Index(l) => J::Obj(vec![("index", J::Num(l.as_u32() as i128))]),
                PlaceElem::ConstantIndex { offset, from_end, .. } => J::Obj(vec![
                    ("const_index", J::Num(offset as i128)),
                    ("from_end", J::Bool(from_end)),
                ]),
                PlaceElem::Subslice { .. } => s("subslice"),
                PlaceElem::OpaqueCast(_) => s("opaque_cast"),
                PlaceElem::UnwrapUnsafeBinder(_) => s("unwrap_binder"),
            };
            proj.push(j);
            pty = pty.projection_ty(tcx, elem);
        }
        J::Obj(vec![("local", J::Num(p.local.as_u32() as i128)), ("proj", J::Arr(proj))])
    }

    fn konst(&self, owner: DefId, c: &mir::ConstOperand<'tcx>) -> J {
        let tcx = self.tcx;
        let t = c.const_.ty();
        let mut o: Vec<(&'static str, J)> = vec![("ty", self.ty(t))];
        if let ty::FnDef(did, args) = t.kind() {
            o.push(("fn", self.callee(owner, *did, args)));
        } else {
            // try to evaluate scalars
            let typing_env = TypingEnv::post_analysis(tcx, owner);
            let mut val = None;
            match c.const_ {
                Const::Val(cv, _) => {
                    if let Some(sc) = cv.try_to_scalar_int() {
                        val = Some(sc);
                    }
                }
                Const::Ty(_, ct) => {
                    if let Some(v) = ct.try_to_value() {
                        if let Some(sc) = v.try_to_leaf() {
                            val = Some(sc);
                        }
                    }
                }
                Const::Unevaluated(..) => {
                    if let Some(sc) = c.const_.try_eval_scalar_int(tcx, typing_env) {
                        val = Some(sc);
                    }
                }
            }
            if let Some(sc) = val {
                let bits = sc.to_bits_unchecked();
                o.push(("val", s(format!("{}", bits))));
            }
            if let Const::Unevaluated(uv, _) = c.const_ {
                o.push(("uneval", s(self.path(uv.def))));
                o.push(("uneval_args", self.gargs(uv.args, 1)));
            }
            o.push(("s", s(format!("{}", c.const_))));
        }
        J::Obj(vec![("const", J::Obj(o))])
    }

    fn operand(&self, owner: DefId, body: &Body<'tcx>, op: &Operand<'tcx>) -> J {
        match op {
            Operand::Copy(p) => J::Obj(vec![("copy", self.place(body, p))]),
            Operand::Move(p) => J::Obj(vec![("move", self.place(body, p))]),
            Operand::Constant(c) => self.konst(owner, c),
            #[allow(unreachable_patterns)]
            _ => J::Obj(vec![("other", s(format!("{:?}", op)))]),
        }
    }

    fn callee(&self, owner: DefId, did: DefId, args: ty::GenericArgsRef<'tcx>) -> J {
        let tcx = self.tcx;
        let mut o: Vec<(&'static str, J)> = vec![
            ("path", s(self.path(did))),
            ("path_args", s(tcx.def_path_str_with_args(did, args))),
            ("generic_args", self.gargs(args, 1)),
            ("local_crate", J::Bool(did.is_local())),
            ("crate", s(tcx.crate_name(did.krate).to_string())),
            ("name", s(tcx.item_name(did).to_string())),
        ];
        if let Some(tr) = tcx.trait_of_assoc(did) {
            o.push(("trait", s(self.path(tr))));
            if let Some(a0) = args.iter().next() {
                if let GenericArgKind::Type(t) = a0.kind() {
                    o.push(("self_ty", self.ty(t)));
                }
            }
        } else if let Some(imp) = tcx.inherent_impl_of_assoc(did) {
            let sty = tcx.type_of(imp).instantiate_identity().skip_norm_wip();
            o.push(("impl_self_ty", self.ty(sty)));
        }
        // resolution of trait-method calls to impls when the receiver type allows it
        let typing_env = TypingEnv::post_analysis(tcx, owner);
        if let Ok(Some(inst)) = Instance::try_resolve(tcx, typing_env, did, args) {
            let rdid = inst.def_id();
            if rdid != did {
                o.push(("resolved", s(self.path(rdid))));
                o.push(("resolved_local", J::Bool(rdid.is_local())));
                o.push(("resolved_args", self.gargs(inst.args, 1)));
            }
            let kind = match inst.def {
                ty::InstanceKind::Item(_) => "item",
                ty::InstanceKind::Intrinsic(_) => "intrinsic",
                ty::InstanceKind::Virtual(..) => "virtual",
                ty::InstanceKind::DropGlue(..) => "drop_glue",
                ty::InstanceKind::ClosureOnceShim { .. } => "closure_once_shim",
                ty::InstanceKind::FnPtrShim(..) => "fnptr_shim",
                ty::InstanceKind::ReifyShim(..) => "reify_shim",
                ty::InstanceKind::CloneShim(..) => "clone_shim",
                _ => "other",
            };
            o.push(("instance", s(kind)));
        }
        if tcx.is_intrinsic(did, rustc_span::sym::transmute) {
            o.push(("intrinsic", s("transmute")));
        } else if let Some(i) = tcx.intrinsic(did) {
            o.push(("intrinsic", s(i.name.to_string())));
        }
        J::Obj(o)
    }

    fn rvalue(&self, owner: DefId, body: &Body<'tcx>, rv: &Rvalue<'tcx>) -> J {
        let op = |x: &Operand<'tcx>| self.operand(owner, body, x);
        match rv {
            Rvalue::Use(x, ..) => J::Obj(vec![("k", s("use")), ("args", J::Arr(vec![op(x)]))]),
            Rvalue::Repeat(x, n) => J::Obj(vec![
                ("k", s("repeat")),
                ("args", J::Arr(vec![op(x)])),
                ("n", s(format!("{}", n))),
            ]),
            Rvalue::Ref(_, bk, p) => J::Obj(vec![
                ("k", s("ref")),
                ("mut", J::Bool(matches!(bk, mir::BorrowKind::Mut { .. }))),
                ("place", self.place(body, p)),
            ]),
            Rvalue::RawPtr(k, p) => J::Obj(vec![
                ("k", s("addr")),
                ("mut", J::Bool(matches!(k, mir::RawPtrKind::Mut))),
                ("place", self.place(body, p)),
            ]),
            Rvalue::ThreadLocalRef(d) => {
                J::Obj(vec![("k", s("tls")), ("path", s(self.path(*d)))])
            }
            Rvalue::Cast(ck, x, t) => {
                let kind = match ck {
                    CastKind::PointerExposeProvenance => "ptr_expose".to_string(),
                    CastKind::PointerWithExposedProvenance => "ptr_from_exposed".to_string(),
                    CastKind::PointerCoercion(pc, _) => format!("coerce:{:?}", pc),
                    CastKind::IntToInt => "int_to_int".to_string(),
                    CastKind::PtrToPtr => "ptr_to_ptr".to_string(),
                    CastKind::FnPtrToPtr => "fnptr_to_ptr".to_string(),
                    CastKind::Transmute => "transmute".to_string(),
                    other => format!("{:?}", other),
                };
                J::Obj(vec![
                    ("k", s("cast")),
                    ("cast", s(kind)),
                    ("args", J::Arr(vec![op(x)])),
                    ("ty", self.ty(*t)),
                ])
            }
            Rvalue::BinaryOp(b, ab) => J::Obj(vec![
                ("k", s("bin")),
                ("op", s(format!("{:?}", b))),
                ("args", J::Arr(vec![op(&ab.0), op(&ab.1)])),
            ]),
            Rvalue::UnaryOp(u, x) => J::Obj(vec![
                ("k", s("un")),
                ("op", s(format!("{:?}", u))),
                ("args", J::Arr(vec![op(x)])),
            ]),
            Rvalue::Discriminant(p) => {
                J::Obj(vec![("k", s("discr")), ("place", self.place(body, p))])
            }
            Rvalue::Aggregate(ak, fields) => {
                let mut o: Vec<(&'static str, J)> = vec![("k", s("agg"))];
                match &**ak {
                    AggregateKind::Adt(did, vi, args, _, _) => {
                        let adt = self.tcx.adt_def(*did);
                        let v = adt.variant(*vi);
                        o.push(("adt", s(self.path(*did))));
                        o.push(("adt_args", self.gargs(args, 1)));
                        o.push(("variant", s(v.name.to_string())));
                        o.push((
                            "fields",
                            J::Arr(v.fields.iter().map(|f| s(f.name.to_string())).collect()),
                        ));
                    }
                    AggregateKind::Tuple => o.push(("agg_kind", s("tuple"))),
                    AggregateKind::Array(_) => o.push(("agg_kind", s("array"))),
                    AggregateKind::Closure(did, _) => {
                        o.push(("agg_kind", s("closure")));
                        o.push(("closure", s(self.path(*did))));
                    }
                    AggregateKind::RawPtr(t, m) => {
                        o.push(("agg_kind", s("rawptr")));
                        o.push(("to", self.ty(*t)));
                        o.push(("mut", J::Bool(m.is_mut())));
                    }
                    _ => o.push(("agg_kind", s("other"))),
                }
                o.push(("args", J::Arr(fields.iter().map(|f| op(f)).collect())));
                J::Obj(o)
            }
            Rvalue::CopyForDeref(p) => J::Obj(vec![
                ("k", s("use")),
                ("args", J::Arr(vec![J::Obj(vec![("copy", self.place(body, p))])])),
            ]),
            other => J::Obj(vec![("k", s("other")), ("s", s(format!("{:?}", other)))]),
        }
    }

    fn bb(b: BasicBlock) -> J {
        J::Num(b.as_u32() as i128)
    }

    fn unwind(u: &UnwindAction) -> J {
        match u {
            UnwindAction::Cleanup(b) => Self::bb(*b),
            UnwindAction::Continue => s("continue"),
            UnwindAction::Unreachable => s("unreachable"),
            UnwindAction::Terminate(_) => s("terminate"),
        }
    }

    fn body(&self, owner: DefId, body: &Body<'tcx>) -> Vec<(&'static str, J)> {
        let mut out: Vec<(&'static str, J)> = Vec::new();
        out.push(("arg_count", J::Num(body.arg_count as i128)));
        out.push((
            "locals",
            J::Arr(body.local_decls.iter().map(|d| self.ty(d.ty)).collect()),
        ));
        let mut dbg = Vec::new();
        for v in &body.var_debug_info {
            if let mir::VarDebugInfoContents::Place(p) = &v.value {
                dbg.push(J::Obj(vec![
                    ("name", s(v.name.to_string())),
                    ("place", self.place(body, p)),
                    ("arg", match v.argument_index {
                        Some(i) => J::Num(i as i128),
                        None => J::Null,
                    }),
                ]));
            }
        }
        out.push(("debug", J::Arr(dbg)));
        let mut blocks = Vec::new();
        for (_bbi, data) in body.basic_blocks.iter_enumerated() {
            let mut stmts = Vec::new();
            for st in &data.statements {
                match &st.kind {
                    StatementKind::Assign(b) => {
                        let (p, rv) = &**b;
                        stmts.push(J::Obj(vec![
                            ("dst", self.place(body, p)),
                            ("rv", self.rvalue(owner, body, rv)),
                            ("line", J::Num(self.line(st.source_info.span))),
                            ("expn", J::Bool(st.source_info.span.from_expansion())),
                        ]));
                    }
                    StatementKind::SetDiscriminant { place, variant_index } => {
                        stmts.push(J::Obj(vec![
                            ("dst", self.place(body, place)),
                            (
                                "rv",
                                J::Obj(vec![
                                    ("k", s("set_discr")),
                                    ("variant", J::Num(variant_index.as_u32() as i128)),
                                ]),
                            ),
                            ("line", J::Num(self.line(st.source_info.span))),
                        ]));
                    }
                    StatementKind::Intrinsic(i) => {
                        stmts.push(J::Obj(vec![
                            ("intrinsic", s(format!("{:?}", i))),
                            ("line", J::Num(self.line(st.source_info.span))),
                        ]));
                    }
                    _ => {}
                }
            }
            let term = data.terminator();
            let tspan = term.source_info.span;
            let mut t: Vec<(&'static str, J)> = Vec::new();
            match &term.kind {
                TerminatorKind::Goto { target } => {
                    t.push(("k", s("goto")));
                    t.push(("targets", J::Arr(vec![Self::bb(*target)])));
                }
                TerminatorKind::SwitchInt { discr, targets } => {
                    t.push(("k", s("switch")));
                    t.push(("discr", self.operand(owner, body, discr)));
                    let mut vals = Vec::new();
                    let mut tg = Vec::new();
                    for (v, b) in targets.iter() {
                        vals.push(s(format!("{}", v)));
                        tg.push(Self::bb(b));
                    }
                    tg.push(Self::bb(targets.otherwise()));
                    t.push(("values", J::Arr(vals)));
                    t.push(("targets", J::Arr(tg)));
                }
                TerminatorKind::UnwindResume => t.push(("k", s("resume"))),
                TerminatorKind::UnwindTerminate(_) => t.push(("k", s("terminate"))),
                TerminatorKind::Return => t.push(("k", s("return"))),
                TerminatorKind::Unreachable => t.push(("k", s("unreachable"))),
                TerminatorKind::Drop { place, target, unwind, .. } => {
                    t.push(("k", s("drop")));
                    t.push(("place", self.place(body, place)));
                    let pty = place.ty(body, self.tcx).ty;
                    t.push(("ty", self.ty(pty)));
                    t.push(("targets", J::Arr(vec![Self::bb(*target)])));
                    t.push(("unwind", Self::unwind(unwind)));
                }
                TerminatorKind::Call { func, args, destination, target, unwind, .. } => {
                    t.push(("k", s("call")));
                    match func {
                        Operand::Constant(c) => {
                            if let ty::FnDef(did, gargs) = c.const_.ty().kind() {
                                t.push(("callee", self.callee(owner, *did, gargs)));
                            } else {
                                t.push((
                                    "callee",
                                    J::Obj(vec![("indirect", self.operand(owner, body, func))]),
                                ));
                            }
                        }
                        _ => t.push((
                            "callee",
                            J::Obj(vec![("indirect", self.operand(owner, body, func))]),
                        )),
                    }
                    t.push((
                        "args",
                        J::Arr(args.iter().map(|a| self.operand(owner, body, &a.node)).collect()),
                    ));
                    t.push(("dest", self.place(body, destination)));
                    t.push((
                        "targets",
                        J::Arr(target.iter().map(|b| Self::bb(*b)).collect()),
                    ));
                    t.push(("unwind", Self::unwind(unwind)));
                }
                TerminatorKind::TailCall { .. } => t.push(("k", s("tailcall"))),
                TerminatorKind::Assert { cond, expected, msg, target, unwind } => {
                    t.push(("k", s("assert")));
                    t.push(("cond", self.operand(owner, body, cond)));
                    t.push(("expected", J::Bool(*expected)));
                    let m = match &**msg {
                        mir::AssertKind::Overflow(op, ..) => format!("Overflow({:?})", op),
                        mir::AssertKind::BoundsCheck { .. } => "BoundsCheck".to_string(),
                        mir::AssertKind::OverflowNeg(_) => "OverflowNeg".to_string(),
                        mir::AssertKind::DivisionByZero(_) => "DivisionByZero".to_string(),
                        mir::AssertKind::RemainderByZero(_) => "RemainderByZero".to_string(),
                        mir::AssertKind::MisalignedPointerDereference { .. } => {
                            "MisalignedPointerDereference".to_string()
                        }
                        mir::AssertKind::NullPointerDereference => {
                            "NullPointerDereference".to_string()
                        }
                        _ => "Other".to_string(),
                    };
                    t.push(("msg", s(m)));
                    t.push(("targets", J::Arr(vec![Self::bb(*target)])));
                    t.push(("unwind", Self::unwind(unwind)));
                }
                TerminatorKind::FalseEdge { real_target, .. } => {
                    t.push(("k", s("goto")));
                    t.push(("targets", J::Arr(vec![Self::bb(*real_target)])));
                }
                TerminatorKind::FalseUnwind { real_target, .. } => {
                    t.push(("k", s("goto")));
                    t.push(("targets", J::Arr(vec![Self::bb(*real_target)])));
                }
                other => {
                    t.push(("k", s("other")));
                    t.push(("s", s(format!("{:?}", other))));
                }
            }
            t.push(("line", J::Num(self.line(tspan))));
            t.push(("expn", J::Bool(tspan.from_expansion())));
            blocks.push(J::Obj(vec![
                ("cleanup", J::Bool(data.is_cleanup)),
                ("stmts", J::Arr(stmts)),
                ("term", J::Obj(t)),
            ]));
        }
        out.push(("blocks", J::Arr(blocks)));
        out
    }

    /// crates whose items (types, functions) are mentioned by the body: local types, callee definitions and their generic arguments
    fn body_crates(&self, body: &Body<'tcx>) -> J {
        use rustc_middle::ty::{TypeSuperVisitable, TypeVisitable, TypeVisitor};
        struct V<'a, 'tcx> {
            tcx: TyCtxt<'tcx>,
            out: &'a mut std::collections::BTreeSet<String>,
        }
        impl<'a, 'tcx> TypeVisitor<TyCtxt<'tcx>> for V<'a, 'tcx> {
            fn visit_ty(&mut self, t: Ty<'tcx>) {
                match t.kind() {
                    ty::Adt(adt, _) => {
                        self.out.insert(self.tcx.crate_name(adt.did().krate).to_string());
                    }
                    ty::FnDef(did, _) => {
                        self.out.insert(self.tcx.crate_name(did.krate).to_string());
                    }
                    _ => {}
                }
                t.super_visit_with(self)
            }
        }
        let mut set = std::collections::BTreeSet::new();
        {
            let mut v = V { tcx: self.tcx, out: &mut set };
            for d in body.local_decls.iter() {
                d.ty.visit_with(&mut v);
            }
            for data in body.basic_blocks.iter() {
                if let TerminatorKind::Call { func, .. } = &data.terminator().kind {
                    if let Operand::Constant(c) = func {
                        c.const_.ty().visit_with(&mut v);
                    }
                }
                for st in &data.statements {
                    if let StatementKind::Assign(b) = &st.kind {
                        if let Rvalue::Use(Operand::Constant(c), ..) = &b.1 {
                            c.const_.ty().visit_with(&mut v);
                        }
                        if let Rvalue::Cast(_, Operand::Constant(c), _) = &b.1 {
                            c.const_.ty().visit_with(&mut v);
                        }
                    }
                }
            }
        }
        J::Arr(set.into_iter().map(s).collect())
    }

    fn line(&self, sp: rustc_span::Span) -> i128 {
        // line of the outermost (source) call site so that macro-expanded code maps to the user line
        let sp = sp.source_callsite();
        let sm = self.tcx.sess.source_map();
        sm.lookup_char_pos(sp.lo()).line as i128
    }

    fn generics(&self, did: DefId) -> J {
        let g = self.tcx.generics_of(did);
        let mut v = Vec::new();
        let mut cur = Some(g);
        let mut chain = Vec::new();
        while let Some(gg) = cur {
            chain.push(gg);
            cur = gg.parent.map(|p| self.tcx.generics_of(p));
        }
        for gg in chain.iter().rev() {
            for p in &gg.own_params {
                let kind = match p.kind {
                    ty::GenericParamDefKind::Lifetime => "lifetime",
                    ty::GenericParamDefKind::Type { .. } => "type",
                    ty::GenericParamDefKind::Const { .. } => "const",
                };
                let nm = p.name.to_string();
                let nm = if nm.starts_with("impl ") { format!("{}#{}", nm, p.index) } else { nm };
                v.push(J::Obj(vec![("name", s(nm)), ("kind", s(kind))]));
            }
        }
        J::Arr(v)
    }

    fn predicates(&self, did: DefId) -> J {
        let preds = self.tcx.predicates_of(did);
        let mut v = Vec::new();
        let mut cur = Some(preds);
        while let Some(p) = cur {
            for (clause, _) in p.predicates {
                v.push(s(format!("{}", clause)));
            }
            cur = p.parent.map(|pp| self.tcx.predicates_of(pp));
        }
        J::Arr(v)
    }

    fn vis(&self, did: DefId) -> J {
        let v = self.tcx.visibility(did);
        match v {
            ty::Visibility::Public => s("pub"),
            ty::Visibility::Restricted(m) => {
                if m.is_crate_root() {
                    s("crate")
                } else {
                    s(format!("restricted:{}", self.path(m)))
                }
            }
        }
    }
}

// ------------------------------------------------------------------ export

/// every path through public modules / public re-exports under which a type-like item of this crate can be named from outside:
/// [{"public": "ops::TypedDrain", "def": "any_vec_typed::TypedDrain"}]
fn public_paths<'tcx>(tcx: TyCtxt<'tcx>, cx: &Cx<'tcx>) -> J {
    use rustc_hir::def::Res;
    let mut out = Vec::new();
    let mut work: Vec<(rustc_hir::def_id::LocalDefId, String, u32)> = vec![(rustc_hir::def_id::CRATE_DEF_ID, String::new(), 0)];
    let mut seen = std::collections::HashSet::new();
    while let Some((m, prefix, depth)) = work.pop() {
        if depth > 6 || !seen.insert((m, prefix.clone())) {
            continue;
        }
        for ch in tcx.module_children_local(m) {
            if !ch.vis.is_public() {
                continue;
            }
            let name = ch.ident.name.to_string();
            let path = if prefix.is_empty() { name.clone() } else { format!("{}::{}", prefix, name) };
            if let Res::Def(kind, did) = ch.res {
                match kind {
                    DefKind::Mod => {
                        if let Some(l) = did.as_local() {
                            work.push((l, path, depth + 1));
                        }
                    }
                    DefKind::Struct | DefKind::Enum | DefKind::Union | DefKind::Trait | DefKind::TyAlias => {
                        if did.is_local() {
                            out.push(J::Obj(vec![("public", s(path)), ("def", s(cx.path(did)))]));
                        }
                    }
                    _ => {}
                }
            }
        }
    }
    J::Arr(out)
}

fn export<'tcx>(tcx: TyCtxt<'tcx>) -> J {
    let cx = Cx { tcx };
    let mut fns = Vec::new();
    let ev = tcx.effective_visibilities(());

    for ldid in tcx.hir_body_owners() {
        let did: DefId = ldid.to_def_id();
        let kind = tcx.def_kind(did);
        let mut o: Vec<(&'static str, J)> = Vec::new();
        o.push(("path", s(cx.path(did))));
        o.push(("kind", s(format!("{:?}", kind))));
        o.push(("span", cx.span(tcx.def_span(did))));
        let body: &Body<'tcx> = match kind {
            DefKind::Fn | DefKind::AssocFn | DefKind::Closure => tcx.optimized_mir(did),
            DefKind::Const { .. } | DefKind::AssocConst { .. } | DefKind::Static { .. } => {
                tcx.mir_for_ctfe(did)
            }
            _ => continue,
        };
        if matches!(kind, DefKind::Fn | DefKind::AssocFn) {
            o.push(("vis", cx.vis(did)));
            o.push(("reachable", J::Bool(ev.is_reachable(ldid))));
            o.push(("exported", J::Bool(ev.is_exported(ldid))));
            let sig = tcx.fn_sig(did).instantiate_identity().skip_norm_wip();
            let hdr = sig.safety();
            o.push(("unsafe", J::Bool(hdr.is_unsafe())));
            let sig_s = sig.skip_binder();
            let inputs: Vec<J> = sig_s.inputs().iter().map(|t| cx.ty(*t)).collect();
            let output = sig_s.output();
            let mut free = Vec::new();
            tcx.for_each_free_region(&output, |r| free.push(s(format!("{:?}", r))));
            let mut bound_out = Vec::new();
            collect_bound_regions(output, &mut bound_out);
            let mut in_regions: Vec<J> = Vec::new();
            for t in sig_s.inputs() {
                let mut v = Vec::new();
                collect_bound_regions(*t, &mut v);
                let mut fr = Vec::new();
                tcx.for_each_free_region(t, |r| fr.push(s(format!("{:?}", r))));
                in_regions.push(J::Obj(vec![
                    ("bound", J::Arr(v.into_iter().map(s).collect())),
                    ("free", J::Arr(fr)),
                ]));
            }
            let self_kind = if tcx.def_kind(did) == DefKind::AssocFn
                && tcx.associated_item(did).is_method()
            {
                match sig_s.inputs()[0].kind() {
                    ty::Ref(_, _, m) => {
                        if m.is_mut() {
                            "mut"
                        } else {
                            "ref"
                        }
                    }
                    _ => "value",
                }
            } else {
                "none"
            };
            o.push(("self_kind", s(self_kind)));
            o.push((
                "sig",
                J::Obj(vec![
                    ("inputs", J::Arr(inputs)),
                    ("output", cx.ty(output)),
                    ("output_free_regions", J::Arr(free)),
                    ("output_bound_regions", J::Arr(bound_out.into_iter().map(s).collect())),
                    ("input_regions", J::Arr(in_regions)),
                    ("s", s(format!("{}", sig))),
                ]),
            ));
            // when the output type is an iterator: its (normalised) Item type. An Iterator's items can never borrow from the iterator itself.
            let out_noreg = tcx.instantiate_bound_regions_with_erased(sig.output());
            if let Some(item_ty) = iterator_item_of(tcx, did, out_noreg) {
                o.push(("output_iter_item", cx.ty(item_ty)));
            }
            if let Some(tr) = tcx.trait_of_assoc(did) {
                o.push(("trait_item_of", s(cx.path(tr))));
            }
            if kind == DefKind::AssocFn {
                let parent = tcx.parent(did);
                o.push(("parent", s(cx.path(parent))));
                o.push(("parent_kind", s(format!("{:?}", tcx.def_kind(parent)))));
                if let DefKind::Impl { of_trait } = tcx.def_kind(parent) {
                    let sty = tcx.type_of(parent).instantiate_identity().skip_norm_wip();
                    o.push(("impl_self_ty", cx.ty(sty)));
                    o.push(("impl_id", s(format!("{:?}", parent))));
                    if of_trait {
                        let tr = tcx.impl_trait_ref(parent).instantiate_identity().skip_norm_wip();
                        o.push(("impl_trait", s(cx.path(tr.def_id))));
                        o.push(("impl_trait_ref", s(format!("{}", tr))));
                    }
                }
            }
            o.push(("name", s(tcx.item_name(did).to_string())));
        }
        o.push(("generics", cx.generics(did)));
        if !matches!(kind, DefKind::Closure) {
            o.push(("where", cx.predicates(did)));
        }
        o.extend(cx.body(did, body));
        o.push(("crates", cx.body_crates(body)));
        fns.push(J::Obj(o));
    }

    // ADTs, impls, traits
    let mut adts = Vec::new();
    let mut impls = Vec::new();
    let mut traits = Vec::new();
    let mut api = Vec::new();
    let mut aliases = Vec::new();
    for ldid in tcx.hir_crate_items(()).definitions() {
        let did = ldid.to_def_id();
        let kind = tcx.def_kind(did);
        match kind {
            DefKind::Struct | DefKind::Enum | DefKind::Union => {
                let adt = tcx.adt_def(did);
                let mut variants = Vec::new();
                for v in adt.variants() {
                    let mut fields = Vec::new();
                    for f in &v.fields {
                        let fty = tcx.type_of(f.did).instantiate_identity().skip_norm_wip();
                        fields.push(J::Obj(vec![
                            ("name", s(f.name.to_string())),
                            ("ty", cx.ty(fty)),
                            ("vis", cx.vis(f.did)),
                        ]));
                    }
                    variants.push(J::Obj(vec![
                        ("name", s(v.name.to_string())),
                        ("fields", J::Arr(fields)),
                    ]));
                }
                let repr = adt.repr();
                let self_ty = tcx.type_of(did).instantiate_identity().skip_norm_wip();
                let typing_env = TypingEnv::post_analysis(tcx, did);
                let needs_drop = self_ty.needs_drop(tcx, typing_env);
                adts.push(J::Obj(vec![
                    ("path", s(cx.path(did))),
                    ("kind", s(format!("{:?}", kind))),
                    ("span", cx.span(tcx.def_span(did))),
                    ("generics", cx.generics(did)),
                    ("where", cx.predicates(did)),
                    ("variants", J::Arr(variants)),
                    (
                        "repr",
                        J::Obj(vec![
                            (
                                "align",
                                match repr.align {
                                    Some(a) => J::Num(a.bytes() as i128),
                                    None => J::Null,
                                },
                            ),
                            ("packed", J::Bool(repr.pack.is_some())),
                            ("c", J::Bool(repr.c())),
                            ("transparent", J::Bool(repr.transparent())),
                        ]),
                    ),
                    ("has_drop_impl", J::Bool(tcx.adt_destructor(did).is_some())),
                    ("may_need_drop", J::Bool(needs_drop)),
                    ("vis", cx.vis(did)),
                    ("reachable", J::Bool(ev.is_reachable(ldid))),
                ]));
            }
            DefKind::Impl { of_trait } => {
                let sty = tcx.type_of(did).instantiate_identity().skip_norm_wip();
                let mut o: Vec<(&'static str, J)> = vec![
                    ("id", s(format!("{:?}", did))),
                    ("self_ty", cx.ty(sty)),
                    ("span", cx.span(tcx.def_span(did))),
                    ("generics", cx.generics(did)),
                    ("where", cx.predicates(did)),
                ];
                if of_trait {
                    let hdr = tcx.impl_trait_header(did);
                    let tr = hdr.trait_ref.instantiate_identity().skip_norm_wip();
                    o.push(("trait", s(cx.path(tr.def_id))));
                    o.push(("trait_ref", s(format!("{}", tr))));
                    o.push(("trait_args", cx.gargs(tr.args, 1)));
                    o.push(("trait_crate", s(tcx.crate_name(tr.def_id.krate).to_string())));
                    o.push(("unsafe", J::Bool(hdr.safety.is_unsafe())));
                    o.push((
                        "negative",
                        J::Bool(matches!(hdr.polarity, ty::ImplPolarity::Negative)),
                    ));
                } else {
                    o.push(("trait", J::Null));
                }
                let mut items = Vec::new();
                for it in tcx.associated_items(did).in_definition_order() {
                    let mut io: Vec<(&'static str, J)> = vec![
                        ("name", s(it.name().to_string())),
                        ("kind", s(format!("{:?}", it.kind))),
                        ("path", s(cx.path(it.def_id))),
                    ];
                    if it.is_type() {
                        let t = tcx.type_of(it.def_id).instantiate_identity().skip_norm_wip();
                        io.push(("ty", cx.ty(t)));
                    }
                    items.push(J::Obj(io));
                }
                o.push(("items", J::Arr(items)));
                impls.push(J::Obj(o));
            }
            DefKind::Trait => {
                let mut items = Vec::new();
                for it in tcx.associated_items(did).in_definition_order() {
                    items.push(J::Obj(vec![
                        ("name", s(it.name().to_string())),
                        ("kind", s(format!("{:?}", it.kind))),
                        ("has_default", J::Bool(it.defaultness(tcx).has_value())),
                        ("path", s(cx.path(it.def_id))),
                    ]));
                }
                traits.push(J::Obj(vec![
                    ("path", s(cx.path(did))),
                    ("vis", cx.vis(did)),
                    ("reachable", J::Bool(ev.is_reachable(ldid))),
                    ("where", cx.predicates(did)),
                    ("super", J::Arr(
                        tcx.explicit_super_predicates_of(did)
                            .iter_identity_copied()
                            .map(|u| s(format!("{}", u.skip_norm_wip().0)))
                            .collect(),
                    )),
                    ("items", J::Arr(items)),
                ]));
            }
            DefKind::TyAlias => {
                let t = tcx.type_of(did).instantiate_identity().skip_norm_wip();
                aliases.push(J::Obj(vec![
                    ("path", s(cx.path(did))),
                    ("ty", cx.ty(t)),
                    ("vis", cx.vis(did)),
                    ("reachable", J::Bool(ev.is_reachable(ldid))),
                ]));
            }
            _ => {}
        }
        if matches!(
            kind,
            DefKind::Struct
                | DefKind::Enum
                | DefKind::Union
                | DefKind::Trait
                | DefKind::TyAlias
                | DefKind::Fn
                | DefKind::AssocFn
                | DefKind::AssocConst { .. }
                | DefKind::AssocTy
                | DefKind::Const { .. }
                | DefKind::Mod
                | DefKind::Static { .. }
        ) && ev.is_reachable(ldid)
        {
            api.push(J::Obj(vec![
                ("path", s(cx.path(did))),
                ("kind", s(format!("{:?}", kind))),
                ("exported", J::Bool(ev.is_exported(ldid))),
            ]));
        }
    }

    // crate facts
    let mut externs = Vec::new();
    for cnum in tcx.crates(()) {
        externs.push(s(tcx.crate_name(*cnum).to_string()));
    }
    let no_std = tcx
        .hir_krate_attrs()
        .iter()
        .any(|a| {
            a.has_name(rustc_span::sym::no_std)
                || matches!(
                    a,
                    rustc_hir::Attribute::Parsed(rustc_hir::attrs::AttributeKind::NoStd { .. })
                )
        });
    let sess = tcx.sess;
    let mut cfgs: Vec<String> = Vec::new();
    for (name, val) in sess.config.iter() {
        match val {
            Some(v) => cfgs.push(format!("{}={}", name, v)),
            None => cfgs.push(name.to_string()),
        }
    }
    cfgs.sort();
    J::Obj(vec![
        (
            "crate",
            J::Obj(vec![
                ("name", s(tcx.crate_name(LOCAL_CRATE).to_string())),
                ("no_std", J::Bool(no_std)),
                ("extern_crates", J::Arr(externs)),
                ("cfg", J::Arr(cfgs.into_iter().map(s).collect())),
                ("overflow_checks", J::Bool(sess.overflow_checks())),
                ("debug_assertions", J::Bool(sess.opts.debug_assertions)),
            ]),
        ),
        ("fns", J::Arr(fns)),
        ("adts", J::Arr(adts)),
        ("impls", J::Arr(impls)),
        ("traits", J::Arr(traits)),
        ("aliases", J::Arr(aliases)),
        ("api", J::Arr(api)),
        ("public_paths", public_paths(tcx, &cx)),
    ])
}

fn collect_bound_regions<'tcx>(t: Ty<'tcx>, out: &mut Vec<String>) {
    use rustc_middle::ty::{TypeSuperVisitable, TypeVisitable, TypeVisitor};
    struct V<'a>(&'a mut Vec<String>);
    impl<'a, 'tcx> TypeVisitor<TyCtxt<'tcx>> for V<'a> {
        fn visit_region(&mut self, r: ty::Region<'tcx>) {
            if r.is_bound() {
                self.0.push(format!("{:?}", r));
            }
        }
        fn visit_ty(&mut self, t: Ty<'tcx>) {
            t.super_visit_with(self)
        }
    }
    t.visit_with(&mut V(out));
}

struct Cb {
    out: Option<String>,
}

impl rustc_driver::Callbacks for Cb {
    fn after_analysis<'tcx>(&mut self, _c: &Compiler, tcx: TyCtxt<'tcx>) -> Compilation {
        if let Some(path) = &self.out {
            let want = std::env::var("AVFACTS_CRATE").unwrap_or_else(|_| "any_vec".to_string());
            if tcx.crate_name(LOCAL_CRATE).as_str() == want {
                let j = export(tcx);
                let mut sout = String::new();
                j.write(&mut sout);
                std::fs::write(path, sout).expect("avfacts: cannot write fact file");
            }
        }
        Compilation::Continue
    }
}

fn main() {
    let mut args: Vec<String> = std::env::args().collect();
    // RUSTC_WORKSPACE_WRAPPER: argv[1] is the path of the real rustc; drop it.
    if args.len() > 1 && (args[1].ends_with("rustc") || args[1].contains("/rustc")) {
        args.remove(1);
    }
    args[0] = "rustc".to_string();
    let mut cb = Cb { out: std::env::var("AVFACTS_OUT").ok() };
    rustc_driver::run_compiler(&args, &mut cb);
}
