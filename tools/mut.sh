#!/bin/bash
# usage: tools/mut.sh <prop> <file> <sed-expr> : apply a sed edit to a scratch copy of /repo, run a check against it
set -e
P=$1; F=$2; E=$3
S=$(mktemp -d /tmp/mut.XXXXXX)
rsync -a --exclude target --exclude .git /repo/ $S/
sed -i "$E" $S/$F
if diff -q /repo/$F $S/$F >/dev/null; then echo "MUTATION DID NOT APPLY"; rm -rf $S; exit 2; fi
cd /verif && ./check $P --repo $S --no-evidence || true
rm -rf $S
