#!/usr/bin/env python3
"""seed_eval.py <prop> <n> <dir with patch.diff demo.rs meta.txt> : confirm a seeded breaking change in a scratch copy
(compiles, existing suite passes, demo fails with / passes without), run every check against it, record the result in
/verif/seeded/<prop>-<n>/."""
import sys, os, subprocess, shutil, json, tempfile, re
sys.path.insert(0, "/verif")
prop, n, src = sys.argv[1], sys.argv[2], sys.argv[3]
sid = "%s-%s" % (prop, sys.argv[4] if len(sys.argv) > 4 else n)
out = "/verif/seeded/" + sid
tmp = tempfile.mkdtemp(prefix="seedeval-")
wd = os.path.join(tmp, "repo")
subprocess.run(["rsync", "-a", "--exclude", "target", "--exclude", ".git", "/repo/", wd + "/"], check=True)
subprocess.run(["cp", "-r", "/repo/target", wd + "/target"], check=True)
env = dict(os.environ, CARGO_NET_OFFLINE="true")


def run(cmd, **kw):
    return subprocess.run(cmd, cwd=wd, capture_output=True, text=True, env=env, **kw)


def passed(o):
    return sum(int(l.split()[3]) for l in o.split("\n") if l.startswith("test result:")), sum(int(l.split()[5]) for l in o.split("\n") if l.startswith("test result:"))


meta = {"id": sid, "property": prop, "source": "independent sub-agent given only the property text and a scratch worktree"}
p = run(["patch", "-p1", "-s", "-i", os.path.join(src, "patch.diff")])
meta["applies"] = p.returncode == 0
if p.returncode != 0:
    print("PATCH DOES NOT APPLY", p.stdout, p.stderr)
    sys.exit(2)
t = run(["cargo", "test", "--workspace", "--no-fail-fast", "--offline"])
ok, failed = passed(t.stdout)
meta["suite_with_change"] = {"passed": ok, "failed": failed, "exit": t.returncode}
shutil.copy(os.path.join(src, "demo.rs"), os.path.join(wd, "tests", "seed_demo.rs"))
mtxt = open(os.path.join(src, "meta.txt")).read()
release = "must be run with --release" in mtxt
nodef = prop == "C19"
reverse = prop in ("C15", "C16")     # compile-time properties: the demo compiles WITH the change and is rejected without it
dcmd = ["cargo", "test", "--offline", "--test", "seed_demo"] + (["--release"] if release else []) + (["--no-default-features"] if nodef else [])
d1 = run(dcmd)
if not reverse and d1.returncode == 0:
    # the demonstration may need a particular profile / feature set / tool (stated in meta.txt): try them in turn
    base = ["cargo", "test", "--offline", "--test", "seed_demo"]
    for alt in (base + ["--release"], base + ["--no-default-features"], ["cargo", "+nightly", "miri", "test", "--offline", "--test", "seed_demo"]):
        if alt == dcmd:
            continue
        if "miri" in alt and "miri" not in mtxt.lower():
            continue
        d1b = run(alt)
        if d1b.returncode != 0:
            d1, dcmd = d1b, alt
            break
meta["demo_with_change"] = {"exit": d1.returncode, "passed_failed": passed(d1.stdout)}
meta["demo_command"] = " ".join(dcmd)
run(["patch", "-p1", "-R", "-s", "-i", os.path.join(src, "patch.diff")])
fixed = os.path.join(src, "demo_fixed.diff")
has_fixed = os.path.exists(fixed)
if has_fixed:
    # feature addition: the demonstration uses the new API, so "without the change" is the corrected version of the addition
    pf = run(["patch", "-p1", "-s", "-i", fixed])
    meta["fixed_variant_applies"] = pf.returncode == 0
d2 = run(dcmd)
if has_fixed:
    run(["patch", "-p1", "-R", "-s", "-i", fixed])
meta["demo_without_change"] = {"exit": d2.returncode, "passed_failed": passed(d2.stdout)}
# checks against the changed tree
run(["patch", "-p1", "-s", "-i", os.path.join(src, "patch.diff")])
os.unlink(os.path.join(wd, "tests", "seed_demo.rs"))
shutil.rmtree(os.path.join(wd, "target"), ignore_errors=True)
from avlint import facts as factsmod
factsmod.REPO = wd
from avlint.runner import check, load_known
from avlint.rules import PROPERTIES
known = load_known()
caught = {}
for pr in sorted(PROPERTIES):
    rc, findings, stats = check(pr, "quick", repo=wd, quiet=True, evidence=False)
    keys = [f.key for f in findings if (pr, f.key) not in known]
    if keys:
        caught[pr] = sorted(keys)
meta["caught_by"] = caught
if has_fixed:
    # the corrected addition must be silent
    run(["patch", "-p1", "-R", "-s", "-i", os.path.join(src, "patch.diff")])
    run(["patch", "-p1", "-s", "-i", fixed])
    shutil.rmtree(os.path.join(wd, "target"), ignore_errors=True)
    alarms = {}
    for pr in sorted(PROPERTIES):
        rc, findings, stats = check(pr, "quick", repo=wd, quiet=True, evidence=False)
        keys = [f.key for f in findings if (pr, f.key) not in known]
        if keys:
            alarms[pr] = sorted(keys)
    meta["fixed_variant_alarms"] = alarms
    shutil.copy(fixed, "/verif/seeded/_fixed_" + sid + ".diff")
meta["caught_by_own_property"] = prop in caught
meta["needs"] = open(os.path.join(src, "meta.txt")).read()
meta["ran"] = ["cargo test --workspace --no-fail-fast --offline (with change)", " ".join(dcmd) + " (with / without change)", "./check <all 19> --repo <scratch> (quick)"]
meta["demo_direction"] = "compiles with the change, rejected by the compiler without it" if reverse else "fails with the change, passes without it"
if reverse:
    compiles_with = "could not compile" not in d1.stderr
    rejected_without = "could not compile" in d2.stderr and bool(re.findall(r"error\[(E\d+)\]", d2.stderr))
    meta["demo_with_change"]["compiles"] = compiles_with
    meta["demo_without_change"]["rejected_by_compiler"] = rejected_without
    valid = meta["suite_with_change"]["exit"] == 0 and compiles_with and rejected_without
    if not valid and "could not compile" not in d1.stderr and "could not compile" not in d2.stderr:
        # a run-time formulation (trait-probe test that compiles on both trees): fails with the change, passes without it
        valid = meta["suite_with_change"]["exit"] == 0 and d1.returncode != 0 and d2.returncode == 0
        meta["demo_direction"] = "fails with the change, passes without it (compiles on both trees)"
    meta["compiler_errors_without_change"] = sorted(set(re.findall(r"error\[(E\d+)\]", d2.stderr)))
else:
    valid = meta["suite_with_change"]["exit"] == 0 and d1.returncode != 0 and d2.returncode == 0
meta["confirmed"] = valid
os.makedirs(out, exist_ok=True)
shutil.copy(os.path.join(src, "patch.diff"), out + "/patch.diff")
shutil.copy(os.path.join(src, "demo.rs"), out + "/demo.rs")
if has_fixed:
    shutil.move("/verif/seeded/_fixed_" + sid + ".diff", out + "/demo_fixed.diff")
    meta["demo_direction"] += " (without = with the corrected version of the added feature, demo_fixed.diff)"
json.dump(meta, open(out + "/meta.json", "w"), indent=1)
shutil.rmtree(tmp, ignore_errors=True)
print(sid, "confirmed" if valid else "NOT CONFIRMED", "suite", meta["suite_with_change"], "demo", meta["demo_with_change"]["exit"], meta["demo_without_change"]["exit"])
print("   caught by:", {k: v[:2] for k, v in caught.items()} or "NOTHING")
if has_fixed:
    print("   fixed variant alarms:", {k: v[:3] for k, v in meta["fixed_variant_alarms"].items()} or "none")
