#!/bin/bash
# ingest_round.sh <first new index> : confirm + evaluate every /tmp/seedwt/Cxx/_seed_out/{1,2} as Cxx-<first>, Cxx-<first+1>
first=${1:-5}
jobs=()
for d in /tmp/seedwt/C*/_seed_out/*; do
  [ -f "$d/patch.diff" ] || continue
  p=$(basename $(dirname $(dirname $d))); i=$(basename $d)
  echo "$p $i $d $((first + i - 1))"
done | xargs -P 5 -L 1 python3 /verif/tools/seed_eval.py
