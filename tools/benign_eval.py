#!/usr/bin/env python3
"""benign_eval.py <dir with patch.diff> ... : apply each behaviour-preserving refactoring to a scratch copy and run every check;
prints the findings that are not known findings (candidates for false alarms)"""
import sys, os, subprocess, shutil, json, tempfile, concurrent.futures
sys.path.insert(0, "/verif")


def one(d):
    tmp = tempfile.mkdtemp(prefix="benign-")
    wd = os.path.join(tmp, "repo")
    subprocess.run(["rsync", "-a", "--exclude", "target", "--exclude", ".git", "/repo/", wd + "/"], check=True)
    p = subprocess.run(["patch", "-p1", "-s", "-i", os.path.join(d, "patch.diff")], cwd=wd, capture_output=True, text=True)
    if p.returncode != 0:
        shutil.rmtree(tmp)
        return d, None
    from avlint import facts as factsmod
    factsmod.REPO = wd
    from avlint.runner import check, load_known
    from avlint.rules import PROPERTIES
    known = load_known()
    out = {}
    for pr in sorted(PROPERTIES):
        try:
            rc, findings, stats = check(pr, "quick", repo=wd, quiet=True, evidence=False)
        except Exception as e:
            out[pr] = ["EXCEPTION %r" % (e,)]
            continue
        keys = ["%s :: %s" % (f.key, f.msg[:160]) for f in findings if (pr, f.key) not in known]
        if rc and not findings:
            keys.append("tool-error")
        if keys:
            out[pr] = keys
    shutil.rmtree(tmp, ignore_errors=True)
    return d, out


if __name__ == "__main__":
    with concurrent.futures.ProcessPoolExecutor(max_workers=6) as ex:
        for d, out in ex.map(one, sys.argv[1:]):
            if out is None:
                print("==", d, "PATCH DOES NOT APPLY")
            elif not out:
                print("==", d, "silent")
            else:
                print("==", d, "ALARMS")
                seen = set()
                for pr, keys in out.items():
                    for k in keys:
                        if k not in seen:
                            seen.add(k)
                            print("    [%s] %s" % (pr, k[:330]))
