#!/usr/bin/env python3
"""ingest_round4.py : file-directed round: /tmp/seedwt/Fxx/_seed_out/i/meta.txt starts with `PROPERTY: Cnn`; each change gets the next free id of its property"""
import glob, os, re, subprocess, sys, concurrent.futures
jobs = []
nxt = {}
for d in sorted(glob.glob("/verif/seeded/C*-*")):
    p, n = os.path.basename(d).split("-")
    nxt[p] = max(nxt.get(p, 0), int(n))
for d in sorted(glob.glob("/tmp/seedwt/%s*/_seed_out/*" % (sys.argv[1] if len(sys.argv) > 1 else "F"))):
    if not os.path.exists(d + "/patch.diff") or not os.path.exists(d + "/meta.txt"):
        continue
    first = open(d + "/meta.txt").read().strip().split("\n")[0]
    m = re.search(r"C\d\d", first)
    if not m:
        print("no property line in", d, first[:80])
        continue
    p = m.group(0)
    nxt[p] = nxt.get(p, 0) + 1
    jobs.append((p, "1", d, str(nxt[p])))


def run(j):
    r = subprocess.run(["python3", "/verif/tools/seed_eval.py"] + list(j), capture_output=True, text=True)
    return j, "\n".join(l for l in (r.stdout + r.stderr).split("\n") if l and not l.startswith("["))[:900]


with concurrent.futures.ThreadPoolExecutor(max_workers=6) as ex:
    for j, out in ex.map(run, jobs):
        print(j[2], "->", j[0] + "-" + j[3])
        print(out)
