#!/usr/bin/env python3
"""try_patch.py <patch file> [Cnn ...] : apply a patch to a scratch copy of /repo and print the findings (not known) of the named properties (default all)"""
import sys, os, subprocess, shutil, tempfile
sys.path.insert(0, "/verif")
patch = sys.argv[1]
tmp = tempfile.mkdtemp(prefix="try-")
wd = os.path.join(tmp, "repo")
subprocess.run(["rsync", "-a", "--exclude", "target", "--exclude", ".git", "/repo/", wd + "/"], check=True)
p = subprocess.run(["patch", "-p1", "-s", "-i", os.path.abspath(patch)], cwd=wd, capture_output=True, text=True)
if p.returncode != 0:
    print("PATCH DOES NOT APPLY", p.stdout, p.stderr)
    sys.exit(2)
from avlint import facts as factsmod
factsmod.REPO = wd
from avlint.runner import check, load_known
from avlint.rules import PROPERTIES
known = load_known()
props = sys.argv[2:] or sorted(PROPERTIES)
import concurrent.futures


def one(pr):
    try:
        rc, findings, stats = check(pr, "quick", repo=wd, quiet=True, evidence=False)
    except Exception as e:
        import traceback
        return pr, ["EXCEPTION " + traceback.format_exc()[-600:]]
    return pr, ["%s :: %s" % (f.key, f.msg[:int(os.environ.get("W", "200"))]) for f in findings if (pr, f.key) not in known]


with concurrent.futures.ThreadPoolExecutor(max_workers=4) as ex:
    for pr, keys in ex.map(one, props):
        for k in keys:
            print("[%s] %s" % (pr, k))
print("-- done", patch)
shutil.rmtree(tmp, ignore_errors=True)
