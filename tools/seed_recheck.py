#!/usr/bin/env python3
"""seed_recheck.py [ids...] : re-run every check against each kept seeded change (scratch copy) and update meta.json caught_by"""
import sys, os, subprocess, shutil, json, tempfile, glob, concurrent.futures
sys.path.insert(0, "/verif")


def one(sid):
    d = "/verif/seeded/" + sid
    meta = json.load(open(d + "/meta.json"))
    tmp = tempfile.mkdtemp(prefix="seedre-")
    wd = os.path.join(tmp, "repo")
    subprocess.run(["rsync", "-a", "--exclude", "target", "--exclude", ".git", "/repo/", wd + "/"], check=True)
    p = subprocess.run(["patch", "-p1", "-s", "-i", d + "/patch.diff"], cwd=wd, capture_output=True, text=True)
    if p.returncode != 0:
        shutil.rmtree(tmp)
        return sid, None
    from avlint import facts as factsmod
    factsmod.REPO = wd
    from avlint.runner import check, load_known
    from avlint.rules import PROPERTIES
    known = load_known()
    caught = {}
    for pr in sorted(PROPERTIES):
        rc, findings, stats = check(pr, "quick", repo=wd, quiet=True, evidence=False)
        keys = [f.key for f in findings if (pr, f.key) not in known]
        if rc and not findings:
            keys.append("tool-error")
        if keys:
            caught[pr] = sorted(keys)
    meta["caught_by"] = caught
    meta["caught_by_own_property"] = meta["property"] in caught
    json.dump(meta, open(d + "/meta.json", "w"), indent=1)
    shutil.rmtree(tmp, ignore_errors=True)
    return sid, caught


if __name__ == "__main__":
    ids = sys.argv[1:] or sorted(os.path.basename(x) for x in glob.glob("/verif/seeded/C*"))
    with concurrent.futures.ProcessPoolExecutor(max_workers=8) as ex:
        for sid, caught in ex.map(one, ids):
            if caught is None:
                print(sid, "PATCH DOES NOT APPLY")
                continue
            own = sid.split("-")[0] in caught
            print(sid, "OWN" if own else "---", {k: len(v) for k, v in caught.items()}, (caught.get(sid.split("-")[0]) or [""])[0][:120])
