#!/usr/bin/env python3
"""seed_table.py : regenerate the catch table of DESIGN.md section 9.2 from /verif/seeded/*/meta.json"""
import json, glob, os, re
rows = []


def key(d):
    p, n = os.path.basename(d).split("-")
    return (p, int(n))


for d in sorted(glob.glob("/verif/seeded/C*-*"), key=key):
    sid = os.path.basename(d)
    m = json.load(open(d + "/meta.json"))
    files = []
    for l in open(d + "/patch.diff"):
        mm = re.match(r"^\+\+\+ b/src/(.*)$", l.strip())
        if mm and mm.group(1) not in files:
            files.append(mm.group(1))
    cb = m.get("caught_by", {})
    own = cb.get(m["property"], [])
    first = own[0] if own else ""
    rule = first.split(":")[0] if first else "**not caught**"
    k = first.split(":", 1)[1] if ":" in first else first
    also = ", ".join(sorted(p for p in cb if p != m["property"]))
    extra = ""
    if os.path.exists(d + "/demo_fixed.diff"):
        fa = m.get("fixed_variant_alarms")
        extra = " (addition; corrected twin kept)"
    rows.append("| %s | %s | %s | `%s` | %s |" % (sid, ", ".join(files), rule, k[:70], (also or "–") + extra))
p = "/verif/DESIGN.md"
s = open(p).read()
hdr = "| seed | files | rule | first key (own property) | also |\n|---|---|---|---|---|\n"
i = s.index(hdr) + len(hdr)
j = i
lines = s[i:].split("\n")
n = 0
while n < len(lines) and lines[n].startswith("| C"):
    n += 1
rest = "\n".join(lines[n:])
s = s[:i] + "\n".join(rows) + "\n" + rest
open(p, "w").write(s)
print(len(rows), "rows;", sum(1 for r in rows if "not caught" in r), "not caught")
