use any_vec::AnyVec;
use std::cell::RefCell;
thread_local!{ static LOG: RefCell<Vec<u32>> = RefCell::new(Vec::new()); }
struct D(u32);
impl Drop for D { fn drop(&mut self){ LOG.with(|l| l.borrow_mut().push(self.0)); } }
#[test]
fn swap_through_element_mut() {
    {
        let mut a: AnyVec = AnyVec::new::<D>();
        { let mut t = a.downcast_mut::<D>().unwrap(); t.push(D(0)); t.push(D(1)); }
        let mut b: AnyVec = AnyVec::new::<D>();
        { let mut t = b.downcast_mut::<D>().unwrap(); t.push(D(10)); }
        {
            let mut m = a.get_mut(0).unwrap();
            let mut dr = b.drain(..);
            let mut owned = dr.next().unwrap();
            std::mem::swap(&mut *m, &mut owned);
            drop(owned);
            drop(dr);
        }
    }
    let mut log = LOG.with(|l| l.borrow().clone());
    log.sort();
    assert_eq!(log, vec![0,1,10], "each element destroyed exactly once");
}
