use any_vec::AnyVec;
use any_vec::any_value::AnyValue;
use std::cell::RefCell;
thread_local!{ static LOG: RefCell<Vec<u32>> = RefCell::new(Vec::new()); }
struct D(u32);
impl Drop for D { fn drop(&mut self){ LOG.with(|l| l.borrow_mut().push(self.0)); } }
#[test]
fn drained_element_outlives_drain() {
    {
        let mut v: AnyVec = AnyVec::new::<D>();
        { let mut t = v.downcast_mut::<D>().unwrap(); t.push(D(0)); t.push(D(1)); t.push(D(2)); }
        let mut d = v.drain(..1);
        let e = d.next().unwrap();
        drop(d);
        drop(e);
    }
    let mut log = LOG.with(|l| l.borrow().clone());
    log.sort();
    assert_eq!(log, vec![0,1,2], "each element destroyed exactly once");
}
#[test]
fn spliced_element_outlives_splice() {
    LOG.with(|l| l.borrow_mut().clear());
    {
        let mut v: AnyVec = AnyVec::new::<D>();
        { let mut t = v.downcast_mut::<D>().unwrap(); t.push(D(0)); t.push(D(1)); t.push(D(2)); }
        let mut r: AnyVec = AnyVec::new::<D>();
        let mut d = v.splice(..1, r.drain(..));
        let e = d.next().unwrap();
        drop(d);
        drop(e);
    }
    let mut log = LOG.with(|l| l.borrow().clone());
    log.sort();
    assert_eq!(log, vec![0,1,2], "each element destroyed exactly once");
}
