"""Source of the self-test corpus: (name, file, old, new, properties to run, substring expected in a finding key).
`python3 selftest/corpus_src.py` regenerates selftest/{mutants,benign}/*.patch and index.json from /repo's HEAD."""
M = []   # mutants
B = []   # benign


def m(name, file, old, new, props, expect):
    M.append(dict(name=name, file=file, old=old, new=new, props=props, expect=expect))


def b(name, file, old, new, props):
    B.append(dict(name=name, file=file, old=old, new=new, props=props))


def b_multi(name, edits, props):
    B.append(dict(name=name, edits=edits, file=edits[0][0], props=props))


AV = "src/any_vec.rs"
RAW = "src/any_vec_raw.rs"
LIB = "src/lib.rs"

# ---------------------------------------------------------------- R-BOUNDS
m("get-lt-to-le", AV, "    pub fn get(&self, index: usize) -> Option<ElementRef<Traits, M>>{\n        if index < self.len(){",
  "    pub fn get(&self, index: usize) -> Option<ElementRef<Traits, M>>{\n        if index <= self.len(){", ["C01", "C13"], "R-BOUNDS:any_vec::AnyVec::get:unchecked-access")
m("remove-no-index-check", AV, "    pub fn remove(&mut self, index: usize) -> Remove<Traits, M> {\n        self.raw.index_check(index);",
  "    pub fn remove(&mut self, index: usize) -> Remove<Traits, M> {", ["C01"], "R-BOUNDS:any_vec::AnyVec::remove:ctor:Remove")
m("insert-assert-dropped", RAW, '        assert!(index <= self.len, "Index out of range!");\n', "", ["C01"], "R-BOUNDS:any_vec_raw::AnyVecRaw::insert_unchecked:shift-guard")
m("into-range-end-assert-dropped", LIB, "    assert!(end <= len);\n", "", ["C02"], "ctor:Drain")
m("typed-swap-remove-no-check", "src/any_vec_typed.rs", "    pub fn swap_remove(&mut self, index: usize) -> T {\n        self.this().index_check(index);",
  "    pub fn swap_remove(&mut self, index: usize) -> T {", ["C01"], "R-BOUNDS:any_vec_typed::AnyVecTyped::swap_remove:ctor:SwapRemove")
m("pop-guard-inverted-typed", "src/any_vec_typed.rs", "    pub fn pop(&mut self) -> Option<T> {\n        if self.is_empty(){\n            None\n        } else {",
  "    pub fn pop(&mut self) -> Option<T> {\n        if self.capacity() == 0 {\n            None\n        } else {", ["C01"], "ctor:Pop")
# ---------------------------------------------------------------- R-FORMULA
m("insert-shift-count-minus-one", RAW, "                element_size * (len - index)\n", "                element_size * (len - index - 1)\n", ["C01"], "insert/erased:shift-count")
m("remove-consume-count-off", "src/ops/remove.rs", "            crate::copy_bytes(src, dst, size * (self.last_index - self.index));",
  "            crate::copy_bytes(src, dst, size * (self.last_index - self.index + 1));", ["C01"], "Remove::consume/erased:shift-count")
m("swap-remove-copies-wrong-slot", "src/ops/swap_remove.rs", "        let last_element = element_ptr_at(self.any_vec_ptr, self.last_index);",
  "        let last_element = element_ptr_at(self.any_vec_ptr, self.last_index - 1);", ["C01"], "SwapRemove::consume")
m("into-range-included-end-no-plus-one", LIB, '        Bound::Included(i) => i.checked_add(1).expect("range end overflow"),', "        Bound::Included(i) => *i,", ["C02"], None)
m("drain-drop-final-len-plus-one", "src/ops/drain.rs", "        any_vec_raw.len = self.original_len - distance;", "        any_vec_raw.len = self.original_len - distance + 1;", ["C02"], "Drain::drop")
m("drain-drop-no-destroy", "src/ops/drain.rs", "            drop_elements_range(\n                self.iter.any_vec_ptr,\n                self.iter.index,\n                self.iter.end\n            );",
  "", ["C02", "C03"], "Drain::drop")
m("get-unchecked-mut-slot-plus-one", RAW, "        self.mem.as_mut_ptr().add(self.element_layout().size() * index)\n    }\n\n    #[cold]",
  "        self.mem.as_mut_ptr().add(self.element_layout().size() * (index + 1))\n    }\n\n    #[cold]", ["C13"], "slot-pointer")
m("reserve-guard-lt-to-le", RAW, "    pub fn reserve(&mut self, additional: usize) {\n        let new_len = self.len.checked_add(additional)\n            .expect(\"capacity overflow\");\n        if self.capacity() < new_len{",
  "    pub fn reserve(&mut self, additional: usize) {\n        let new_len = self.len.checked_add(additional)\n            .expect(\"capacity overflow\");\n        if self.capacity() <= new_len{", ["C10", "C11"], "reserve")
m("as-bytes-len-without-size", AV, "    pub fn as_bytes(&self) -> &[u8] {\n        unsafe{from_raw_parts(\n            self.raw.mem.as_ptr(),\n            self.len() * self.element_layout().size()",
  "    pub fn as_bytes(&self) -> &[u8] {\n        unsafe{from_raw_parts(\n            self.raw.mem.as_ptr(),\n            self.len()", ["C12"], "as_bytes")
m("heap-expand-no-doubling", "src/mem/heap.rs", "        let new_size = cmp::max(self.size().saturating_mul(2), requested_size);", "        let new_size = requested_size;", ["C10"], None)
m("stack-build-plus-one", "src/mem/stack.rs", "                SIZE / element_layout.size()\n", "                SIZE / element_layout.size() + 1\n", ["C11"], None)
m("stackn-assert-dropped", "src/mem/stack_n.rs", '        assert!(\n            N.checked_mul(element_layout.size()).map_or(false, |bytes| bytes <= SIZE),\n            "Insufficient storage!"\n        );\n', "", ["C11"], "R-STACKCAP")
m("clone-len-from-capacity", RAW, "        cloned.len = self.len;\n        cloned", "        cloned.len = self.capacity();\n        cloned", ["C08"], "clone")
m("iter-range-off", AV, "        Iter::new(AnyVecPtr::from(self), 0, self.len())", "        Iter::new(AnyVecPtr::from(self), 1, self.len())", ["C14", "C01"], "iter-range")
# ---------------------------------------------------------------- R-OVERLAP / R-UNITS
m("typed-shift-nonoverlapping", RAW, "            ptr::copy(\n                element,\n                element.add(1),\n                len - index\n            );",
  "            ptr::copy_nonoverlapping(\n                element,\n                element.add(1),\n                len - index\n            );", ["C01"], "R-OVERLAP")
m("copy-bytes-always-forward", LIB, "    if dst as *const u8 <= src {\n        for i in 0..count{", "    if dst as *const u8 <= src || count < 64 {\n        for i in 0..count{", ["C01"], "R-OVERLAP")
m("destructor-stride-usize", RAW, "                                ptr = ptr.add(mem::size_of::<T>());", "                                ptr = ptr.add(mem::size_of::<usize>());", ["C03"], None)
# ---------------------------------------------------------------- R-FORGET / lazy
m("default-move-into-no-forget", "src/any_value/mod.rs", "        crate::copy_nonoverlapping_value::<KnownType>(self.as_bytes_ptr(), out, bytes_size);\n        mem::forget(self);",
  "        crate::copy_nonoverlapping_value::<KnownType>(self.as_bytes_ptr(), out, bytes_size);", ["C03"], "R-FORGET")
m("lazyclone-override-deleted", "src/any_value/lazy_clone.rs", "    #[inline]\n    unsafe fn move_into<KnownType:'static /*= Unknown*/>(self, out: *mut u8, _bytes_size: usize) {\n        self.value.clone_into(out);\n    }\n", "", ["C09"], "R-FORGET")
m("tempvalue-move-into-no-forget", "src/ops/temp.rs", "        self.op.consume();\n        mem::forget(self);", "        self.op.consume();", ["C03"], "R-FORGET")
# ---------------------------------------------------------------- R-TYPEGUARD
m("push-no-type-check", AV, "    pub fn push<V: AnyValue>(&mut self, value: V) {\n        self.raw.type_check(&value);", "    pub fn push<V: AnyValue>(&mut self, value: V) {", ["C04"], "R-TYPEGUARD:any_vec::AnyVec::push")
m("splice-item-assert-dropped", "src/ops/splice.rs", "                assert_types_equal(type_id, replace_element.value_typeid());\n", "", ["C04"], "R-TYPEGUARD")
m("swap-assert-dropped", "src/any_value/mod.rs", "        assert_eq!(self.value_typeid(), other.value_typeid());\n", "", ["C04", "C13"], "R-TYPEGUARD:any_value::AnyValueMut::swap")
m("element-downcast-mut-guard-inverted", "src/element.rs", "    pub fn downcast_mut<T: 'static>(&mut self) -> Option<&'a mut T>{\n        if self.value_typeid() != TypeId::of::<T>(){",
  "    pub fn downcast_mut<T: 'static>(&mut self) -> Option<&'a mut T>{\n        if self.value_typeid() == TypeId::of::<T>(){", ["C04"], "R-TYPEGUARD:element::ElementPointer::downcast_mut")
m("vec-downcast-ref-wrong-type", AV, "    pub fn downcast_ref<T: 'static>(&self) -> Option<AnyVecRef<T, M>> {\n        if self.element_typeid() == TypeId::of::<T>() {",
  "    pub fn downcast_ref<T: 'static>(&self) -> Option<AnyVecRef<T, M>> {\n        if self.element_typeid() == TypeId::of::<Traits>() {", ["C04"], "R-TYPEGUARD:any_vec::AnyVec::downcast_ref")
# ---------------------------------------------------------------- R-ORDER
m("push-reserve-after-pointer", RAW, "        self.reserve_one();\n\n        // Compile time type optimization\n        if !Unknown::is::<V::Type>(){\n            let element = self.mem.as_mut_ptr().cast::<V::Type>().add(self.len) as *mut u8;\n            value.move_into::<V::Type>(element, size_of::<V::Type>());",
  "        // Compile time type optimization\n        if !Unknown::is::<V::Type>(){\n            let element = self.mem.as_mut_ptr().cast::<V::Type>().add(self.len) as *mut u8;\n            self.reserve_one();\n            value.move_into::<V::Type>(element, size_of::<V::Type>());", ["C05"], "P1-stale-pointer")
m("clear-len-after-destroy", RAW, "        self.len = 0;\n\n        if let Some(drop_fn) = self.drop_fn{\n            unsafe{\n                (drop_fn)(self.mem.as_mut_ptr(), len);\n            }\n        }",
  "        if let Some(drop_fn) = self.drop_fn{\n            unsafe{\n                (drop_fn)(self.mem.as_mut_ptr(), len);\n            }\n        }\n        self.len = 0;", ["C06", "C03"], "P3-destroy-visible")
m("tempvalue-consume-before-destroy", "src/ops/temp.rs", "    fn drop(&mut self) {\n        unsafe{\n            let drop_fn = self.any_vec_raw().drop_fn;",
  "    fn drop(&mut self) {\n        self.op.consume();\n        unsafe{\n            let drop_fn = self.any_vec_raw().drop_fn;", ["C06", "C03"], "R-ORDER:<ops::temp::TempValue as core::ops::Drop>::drop")
m("clone-len-before-clone-fn", RAW, "        // 3. copy/clone\n        {", "        cloned.len = self.len;\n        // 3. copy/clone\n        {", ["C08", "C06"], "P5-clone-len")
m("insert-len-not-lowered", RAW, "        let len = self.len;\n        self.len = index;\n", "        let len = self.len;\n", ["C06"], "P2-torn-state")
# ---------------------------------------------------------------- R-LENLOWER
m("remove-lowering-moved-to-consume", "src/ops/remove.rs", "        let last_index = any_vec_raw.len - 1;\n        any_vec_raw.len = index;", "        let last_index = any_vec_raw.len - 1;", ["C07"], "R-LENLOWER:ops::remove::Remove")
m("drain-new-no-lowering", "src/ops/drain.rs", "        // mem::forget and element drop panic \"safety\".\n        any_vec_raw.len = start;\n", "", ["C07"], "R-LENLOWER:ops::drain::Drain")
m("pop-lowers-by-two", "src/ops/pop.rs", "        any_vec_raw.len -= 1;", "        any_vec_raw.len -= 2;", ["C07"], "R-LENLOWER:ops::pop::Pop")
# ---------------------------------------------------------------- R-PROVENANCE / R-FIELDMAP
m("clone-empty-in-drop-fn-none", RAW, "            type_id: self.type_id,\n            drop_fn: self.drop_fn,\n        }", "            type_id: self.type_id,\n            drop_fn: None,\n        }", ["C08"], "R-PROVENANCE")
m("into-raw-parts-len-capacity", AV, "            len: this.raw.len,", "            len: capacity,", ["C17"], "R-FIELDMAP")
m("from-raw-parts-swap-len-cap", AV, "                    raw_parts.element_layout,\n                    raw_parts.capacity\n                ),\n                len: raw_parts.len,", "                    raw_parts.element_layout,\n                    raw_parts.len\n                ),\n                len: raw_parts.capacity,", ["C17"], "R-FIELDMAP")
m("heap-into-raw-parts-drops", "src/mem/heap.rs", "        let this = ManuallyDrop::new(self);\n        (this.mem, this.element_layout, this.size)", "        let this = self;\n        (this.mem, this.element_layout, this.size)", ["C17", "C18"], "R-FIELDMAP")
# ---------------------------------------------------------------- R-ITER
m("size-hint-plus-one", "src/iter.rs", "        let size = self.end - self.index;\n        (size, Some(size))", "        let size = self.end - self.index + 1;\n        (size, Some(size))", ["C14"], "size_hint")
m("ops-iter-next-back-forwards-next", "src/ops/iter.rs", "        self.0.iter_mut().next_back()", "        self.0.iter_mut().next()", ["C14"], "forward")
m("next-advances-on-none", "src/iter.rs", "        if self.index == self.end{\n            None\n        } else {\n            let element = ElementPointer::new(\n                self.any_vec_ptr,\n                unsafe{NonNull::new_unchecked(\n                    element_ptr_at(self.any_vec_ptr, self.index) as *mut u8",
  "        if self.index > self.end{\n            None\n        } else {\n            let element = ElementPointer::new(\n                self.any_vec_ptr,\n                unsafe{NonNull::new_unchecked(\n                    element_ptr_at(self.any_vec_ptr, self.index) as *mut u8", ["C14"], "R-ITER")
# ---------------------------------------------------------------- P15 / P16 / R-SIG
m("anyvec-send-without-traits-send", AV, "unsafe impl<Traits: ?Sized + Send + Trait, M: MemBuilder + Send> Send for AnyVec<Traits, M>", "unsafe impl<Traits: ?Sized + Trait, M: MemBuilder + Send> Send for AnyVec<Traits, M>", ["C15"], "P15:AnyVec:Send")
m("typed-sync-without-t-sync", "src/any_vec_typed.rs", "unsafe impl<'a, T: 'static + Sync, M: MemBuilder + Sync> Sync for AnyVecTyped<'a, T, M>", "unsafe impl<'a, T: 'static, M: MemBuilder + Sync> Sync for AnyVecTyped<'a, T, M>", ["C15"], "P15:AnyVec")
m("remove-takes-shared-self", AV, "    pub fn remove(&mut self, index: usize) -> Remove<Traits, M> {", "    pub fn remove(&self, index: usize) -> Remove<Traits, M> {", ["C16"], "any_vec::AnyVec::remove")
m("iter-mut-takes-shared-self", AV, "    pub fn iter_mut(&mut self) -> IterMut<Traits, M>{", "    pub fn iter_mut(&self) -> IterMut<Traits, M>{", ["C16"], "any_vec::AnyVec::iter_mut")
# ---------------------------------------------------------------- R-HEAP / R-ARITH / R-ALLOCCONFINED / R-CONFIG
m("realloc-with-new-layout-as-old", "src/mem/heap.rs", "                                self.mem.as_ptr(), mem_layout,new_mem_size", "                                self.mem.as_ptr(), new_mem_layout,new_mem_size", ["C18"], "realloc-old-layout")
m("dealloc-skipped", "src/mem/heap.rs", "                        dealloc(self.mem.as_ptr(), mem_layout);\n", "", ["C18"], "R-HEAP")
m("checked-mul-to-plain", "src/mem/heap.rs", "                        let new_mem_size = self.element_layout.size()\n                            .checked_mul(new_size).unwrap();", "                        let new_mem_size = self.element_layout.size() * new_size;", ["C18"], "R-HEAP")
m("reserve-plain-add", RAW, "    pub fn reserve(&mut self, additional: usize) {\n        let new_len = self.len.checked_add(additional)\n            .expect(\"capacity overflow\");", "    pub fn reserve(&mut self, additional: usize) {\n        let new_len = self.len + additional;", ["C10"], "R-ARITH:any_vec_raw::AnyVecRaw::reserve")
m("alloc-fast-path-in-push", AV, "    pub fn push<V: AnyValue>(&mut self, value: V) {\n        self.raw.type_check(&value);",
  "    pub fn push<V: AnyValue>(&mut self, value: V) {\n        #[cfg(feature=\"alloc\")]\n        { if self.len() == usize::MAX { return; } }\n        self.raw.type_check(&value);", ["C19"], "body-differs")

# ---------------------------------------------------------------- rows added after the seeded rounds
m("vec-drop-skips-small", RAW, "    fn drop(&mut self) {\n        self.clear();\n    }", "    fn drop(&mut self) {\n        if self.capacity() != 0 { self.clear(); }\n    }", ["C03"], "vec-drop")
m("push-reserve-after-write", RAW, "        self.reserve_one();\n\n        // Compile time type optimization\n        if !Unknown::is::<V::Type>(){\n            let element = self.mem.as_mut_ptr().cast::<V::Type>().add(self.len) as *mut u8;",
  "        // Compile time type optimization\n        if !Unknown::is::<V::Type>(){\n            self.reserve_one();\n            let element = self.mem.as_mut_ptr().cast::<V::Type>().add(self.len) as *mut u8;", ["C01"], None)
m("lazyclone-chain-clones-twice", "src/any_value/lazy_clone.rs", "    unsafe fn clone_into(&self, out: *mut u8) {\n        self.value.clone_into(out);\n    }", "    unsafe fn clone_into(&self, out: *mut u8) {\n        self.value.clone_into(out);\n        self.value.clone_into(out);\n    }", ["C09"], "clone_into:LazyClone")
m("element-clone-into-wrong-count", "src/element.rs", "        (clone_fn)(self.as_bytes().as_ptr(), out, 1);", "        (clone_fn)(self.as_bytes().as_ptr(), out, self.size());", ["C09"], "clone_into:ElementPointer")
m("tempvalue-as-bytes-mut-other-slot", "src/ops/temp.rs", "        self.op.bytes() as *mut u8\n", "        (self.op.bytes() as *mut u8).wrapping_add(self.bytes_len())\n", ["C13"], "bytes-ptr-agree")

# ================================================================= benign edits (every check stays silent)
ALL = ["C01", "C02", "C03", "C04", "C05", "C06", "C07", "C08", "C09", "C10", "C11", "C12", "C13", "C14", "C17", "C18", "C19"]
b("get-early-return", AV, "        if index < self.len(){\n            Some(unsafe{ self.get_unchecked(index) })\n        } else {\n            None\n        }\n    }\n\n    #[inline]\n    pub unsafe fn get_unchecked(&self",
  "        if index >= self.len(){\n            return None;\n        }\n        Some(unsafe{ self.get_unchecked(index) })\n    }\n\n    #[inline]\n    pub unsafe fn get_unchecked(&self", ["C01", "C13", "C05"])
b("index-check-inlined", AV, "    pub fn remove(&mut self, index: usize) -> Remove<Traits, M> {\n        self.raw.index_check(index);", "    pub fn remove(&mut self, index: usize) -> Remove<Traits, M> {\n        assert!(index < self.raw.len, \"Index out of range!\");", ["C01", "C05", "C07"])
b("assert-as-if-panic", RAW, '        assert!(index <= self.len, "Index out of range!");', '        if index > self.len { panic!("Index out of range!"); }', ["C01", "C05", "C06"])
b("shift-count-hoisted", RAW, "            // 1. shift right\n            crate::copy_bytes(\n                element,\n                element.add(element_size),\n                element_size * (len - index)\n            );",
  "            // 1. shift right\n            let tail = len - index;\n            let bytes = tail * element_size;\n            crate::copy_bytes(\n                element,\n                element.add(element_size),\n                bytes\n            );", ["C01", "C05", "C06"])
b("dispatch-arms-swapped", "src/ops/remove.rs", "        if !Unknown::is::<AnyVecPtr::Element>() {\n            let dst = self.bytes() as *mut AnyVecPtr::Element;\n            let src = dst.add(1);\n            ptr::copy(src, dst, self.last_index - self.index);\n        } else {\n            let size = self.any_vec_ptr.any_vec_raw().element_layout().size();\n            let dst = self.bytes() as *mut u8;\n            let src = dst.add(size);\n            crate::copy_bytes(src, dst, size * (self.last_index - self.index));\n        }",
  "        if Unknown::is::<AnyVecPtr::Element>() {\n            let size = self.any_vec_ptr.any_vec_raw().element_layout().size();\n            let dst = self.bytes() as *mut u8;\n            let src = dst.add(size);\n            crate::copy_bytes(src, dst, size * (self.last_index - self.index));\n        } else {\n            let dst = self.bytes() as *mut AnyVecPtr::Element;\n            let src = dst.add(1);\n            ptr::copy(src, dst, self.last_index - self.index);\n        }", ["C01", "C03", "C05"])
b("locals-renamed", "src/ops/drain.rs", "        let distance = self.end - self.start;\n        let any_vec_raw = unsafe{ self.iter.any_vec_ptr.any_vec_raw_mut() };\n        any_vec_raw.len = self.original_len - distance;",
  "        let removed = self.end - self.start;\n        let raw = unsafe{ self.iter.any_vec_ptr.any_vec_raw_mut() };\n        raw.len = self.original_len - removed;", ["C02", "C03", "C05", "C06"])
b("len-method-replaced-by-field", AV, "            self.len() * self.element_layout().size()\n        )}\n    }\n\n    #[inline]\n    pub fn as_bytes_mut", "            self.raw.len * self.element_layout().size()\n        )}\n    }\n\n    #[inline]\n    pub fn as_bytes_mut", ["C12", "C05"])
b("operands-commuted", RAW, "        self.mem.as_ptr().add(self.element_layout().size() * index)", "        self.mem.as_ptr().add(index * self.element_layout().size())", ["C01", "C13", "C05"])
b("remove-consume-ptr-copy", "src/ops/remove.rs", "            crate::copy_bytes(src, dst, size * (self.last_index - self.index));", "            ptr::copy(src, dst, size * (self.last_index - self.index));", ["C01", "C03", "C05"])
b("clear-mem-replace", RAW, "        let len = self.len;\n\n        // Prematurely set the length to zero so that even if dropping the values panics users\n        // won't be able to access the dropped values.\n        self.len = 0;",
  "        // Prematurely set the length to zero so that even if dropping the values panics users\n        // won't be able to access the dropped values.\n        let len = mem::replace(&mut self.len, 0);", ["C01", "C03", "C06"])
b("ctor-result-bound-to-local", AV, "        self.raw.index_check(index);\n        TempValue::new(swap_remove::SwapRemove::new(\n            AnyVecPtr::from(self),\n            index\n        ))",
  "        self.raw.index_check(index);\n        let op = swap_remove::SwapRemove::new(\n            AnyVecPtr::from(self),\n            index\n        );\n        TempValue::new(op)", ["C01", "C07"])
b("reserve-statements-reordered", RAW, "        let new_len = cmp::max(self.len, min_capacity);\n        // Never grow.", "        let new_len = cmp::max(min_capacity, self.len);\n        // Never grow.", ["C10", "C05"])
b("slot-helper-extracted", "src/ops/swap_remove.rs", "        let element = unsafe{ element_mut_ptr_at(any_vec_ptr, index) };\n", "        let slot = index;\n        let element = unsafe{ element_mut_ptr_at(any_vec_ptr, slot) };\n", ["C01", "C07", "C13"])
b("drop-comment-and-inline-attr", "src/ops/splice.rs", "        // 4. restore len\n", "        // 4. restore the visible length\n", ["C02", "C06"])

b_multi("bounds-check-moved-into-ctor", [
    (AV, "    pub fn remove(&mut self, index: usize) -> Remove<Traits, M> {\n        self.raw.index_check(index);", "    pub fn remove(&mut self, index: usize) -> Remove<Traits, M> {"),
    ("src/ops/remove.rs", "        let any_vec_raw = unsafe{ any_vec_ptr.any_vec_raw_mut() };\n        let last_index = any_vec_raw.len - 1;", "        let any_vec_raw = unsafe{ any_vec_ptr.any_vec_raw_mut() };\n        assert!(index < any_vec_raw.len, \"Index out of range!\");\n        let last_index = any_vec_raw.len - 1;"),
    ("src/any_vec_typed.rs", "    pub fn remove(&mut self, index: usize) -> T {\n        self.this().index_check(index);", "    pub fn remove(&mut self, index: usize) -> T {"),
], ["C01", "C07", "C05"])
b("reserve-early-return-when-enough", RAW, "    pub fn reserve(&mut self, additional: usize) {\n        let new_len = self.len.checked_add(additional)\n            .expect(\"capacity overflow\");\n        if self.capacity() < new_len{\n            self.mem.expand(new_len - self.capacity());\n        }",
  "    pub fn reserve(&mut self, additional: usize) {\n        let new_len = self.len.checked_add(additional)\n            .expect(\"capacity overflow\");\n        if self.capacity() >= new_len{\n            return;\n        }\n        self.mem.expand(new_len - self.capacity());", ["C10", "C05", "C08", "C11"])

if __name__ == "__main__":
    import os, json, subprocess, tempfile, shutil
    here = os.path.dirname(os.path.abspath(__file__))
    idx = {"mutants": [], "benign": []}
    for kind, lst in (("mutants", M), ("benign", B)):
        d = os.path.join(here, kind)
        for f in os.listdir(d):
            if f.endswith(".patch"):
                os.unlink(os.path.join(d, f))
        for e in lst:
            edits = e.get("edits") or [(e["file"], e["old"], e["new"])]
            tmp = tempfile.mkdtemp()
            out = ""
            bad = False
            for (fl, old, new_) in edits:
                src = open(os.path.join("/repo", fl)).read()
                if src.count(old) != 1:
                    print("!! %s: anchor occurs %d times in %s" % (e["name"], src.count(old), fl))
                    bad = True
                    break
                new = src.replace(old, new_)
                a = os.path.join(tmp, "a", fl); bpath = os.path.join(tmp, "b", fl)
                os.makedirs(os.path.dirname(a), exist_ok=True); os.makedirs(os.path.dirname(bpath), exist_ok=True)
                open(a, "w").write(src); open(bpath, "w").write(new)
                p = subprocess.run(["diff", "-u", "a/" + fl, "b/" + fl], cwd=tmp, capture_output=True, text=True)
                out += p.stdout
            shutil.rmtree(tmp)
            if bad:
                continue
            open(os.path.join(d, e["name"] + ".patch"), "w").write(out)
            rec = {"name": e["name"], "file": e["file"], "props": e["props"]}
            if kind == "mutants":
                rec["expect"] = e["expect"]
            idx[kind].append(rec)
    # behaviour-preserving refactorings written independently (by sub-agents that saw only the repository): stored as patches,
    # every check must stay silent on each of them
    ext = os.path.join(here, "benign_ext")
    allprops = ["C%02d" % i for i in range(1, 20)]
    for f in sorted(os.listdir(ext)) if os.path.isdir(ext) else []:
        if f.endswith(".patch"):
            shutil.copy(os.path.join(ext, f), os.path.join(here, "benign", f))
            idx["benign"].append({"name": f[:-6], "file": "(multi)", "props": allprops, "origin": "independent refactoring"})
    json.dump(idx, open(os.path.join(here, "index.json"), "w"), indent=1)
    print("mutants", len(idx["mutants"]), "benign", len(idx["benign"]))
