"""Abstract interpretation of an inlined graph: value numbering with polynomial normal form (A2),
must-facts (A3), effect log (A5).  No path enumeration: states are joined at merge points."""
from .poly import Poly, show_atom, show_path
from .types import ty_str

SCALAR_KINDS = {"uint", "int", "bool", "ptr", "ref", "fnptr", "char", "float", "fndef", "never", "str"}
INT_KINDS = {"uint", "int"}


def is_scalar_ty(t):
    return t.get("k") in SCALAR_KINDS


def is_int_ty(t):
    return t.get("k") in INT_KINDS


class Tree:
    """operand value standing for 'the aggregate currently stored under path'."""
    __slots__ = ("path", "ty")

    def __init__(self, path, ty):
        self.path = path
        self.ty = ty

    def __repr__(self):
        return "Tree(%s)" % show_path(self.path)


class State:
    __slots__ = ("env", "base", "ver", "facts", "wrapped")

    def __init__(self, env=None, base=None, ver=None, facts=None, wrapped=None):
        self.env = env if env is not None else {}
        self.base = base if base is not None else {}
        self.ver = ver if ver is not None else {}
        self.facts = facts if facts is not None else frozenset()
        self.wrapped = wrapped if wrapped is not None else frozenset()     # results of possibly wrapping unsigned subtractions (may-set)

    def copy(self):
        return State(dict(self.env), dict(self.base), dict(self.ver), self.facts, self.wrapped)


def sub_of(p, q):
    """path q is p or lies under p"""
    return q[0] == p[0] and q[1][:len(p[1])] == p[1]


def as_poly(v):
    if isinstance(v, Poly):
        return v
    if isinstance(v, tuple) and v and v[0] == "bconst":
        return Poly.const(v[1])
    return Poly.atom(v)


NEG = {"Lt": "Ge", "Le": "Gt", "Gt": "Le", "Ge": "Lt", "Eq": "Ne", "Ne": "Eq"}


def cmp_fact(op, a, b):
    """normalised fact for a (op) b over integers: ('ge0', p) / ('eq0', p) / ('ne0', p)"""
    a, b = as_poly(a), as_poly(b)
    if op == "Lt":
        return ("ge0", b - a - Poly.const(1))
    if op == "Le":
        return ("ge0", b - a)
    if op == "Gt":
        return ("ge0", a - b - Poly.const(1))
    if op == "Ge":
        return ("ge0", a - b)
    if op == "Eq":
        d = a - b
        return ("eq0", canon_sign(d))
    if op == "Ne":
        d = a - b
        return ("ne0", canon_sign(d))
    raise ValueError(op)


def canon_sign(p):
    if not p.m:
        return p
    k = sorted(p.m.keys(), key=lambda k: (len(k), repr(k)))[-1]
    return p if p.m[k] > 0 else -p


def bool_facts(b, truth):
    """facts implied by boolean term b having the given truth value"""
    if isinstance(b, Poly):
        c = b.const_value()
        if c is not None:
            return [] if bool(c) == truth else [("false",)]
        return [("eq0" if not truth else "ne0", canon_sign(b))]
    if not isinstance(b, tuple):
        return []
    if b[0] == "cmp":
        op = b[1] if truth else NEG[b[1]]
        f = cmp_fact(op, b[2], b[3])
        c = f[1].const_value()
        if c is not None:
            # a comparison of constants (after substitution / inlining): decided
            holds = (c >= 0) if f[0] == "ge0" else ((c == 0) if f[0] == "eq0" else (c != 0))
            return [] if holds else [("false",)]
        return [f]
    if b[0] == "not":
        return bool_facts(b[1], not truth)
    if b[0] == "bconst":
        return [] if bool(b[1]) == truth else [("false",)]
    if b[0] == "teq":
        return [("teq" if truth else "tne", b[1], b[2])]
    if b[0] == "boolj":
        # a boolean built in two arms (`match x { Some(v) => v <= LIMIT, None => false }`): what held on the arm(s) that can produce this truth value
        return list(b[3] if truth else b[4]) + [("true" if truth else "isfalse", b[:3])]
    return [("true" if truth else "isfalse", b)]


_CONST_CACHE = {}


class Effect:
    __slots__ = ("kind", "gid", "idx", "d", "node")

    def __init__(self, kind, gid, idx, node, **d):
        self.kind = kind
        self.gid = gid
        self.idx = idx
        self.node = node
        self.d = d

    def __getitem__(self, k):
        return self.d.get(k)

    def get(self, k, default=None):
        return self.d.get(k, default)

    def where(self):
        return "%s bb%d line %s" % (self.node.inst.path(), self.node.bb, self.d.get("line"))

    def __repr__(self):
        return "<%s %s %s>" % (self.kind, self.where(), {k: v for k, v in self.d.items() if k != "line"})


class Interp:
    def __init__(self, graph, entry_args=None, prune_type_tests=True, type_tests=None, entry_facts=None):
        self.g = graph
        self.fx = graph.fx
        self.tcx = graph.tcx
        self.in_state = {}
        self.effects = {}      # (gid, idx) -> [Effect]
        self.calls = {}        # gid -> dict
        self.out_states = {}   # (gid, succ gid) -> state leaving gid towards succ
        self._newtype_cache = {}
        self.enumj = {}        # (join gid, key) -> {variant name: facts that hold when the value was built as that variant}
        self.enumj_names = {}  # (join gid, key) -> variant names in declaration order
        self.optj = {}         # (join gid, key) -> (facts that hold only on the Some side, facts that hold only on the None side)
        self.unclassified = {}  # (gid) -> description
        self.prune_type_tests = prune_type_tests
        self.entry_args = entry_args
        self.dead_edges = set()
        self.cur_state = None
        self.edges = set()
        self._idom = None
        self._reach = {}
        self.type_tests = dict(type_tests or {})
        self.entry_facts = frozenset(entry_facts or ())
        self.run()

    # ------------------------------------------------------------------ types
    def local_ty(self, inst, n):
        return self.tcx.subst(inst.fn["locals"][n], inst.subst)

    def place_ty(self, inst, place):
        t = self.local_ty(inst, place["local"])
        for e in place["proj"]:
            if e == "deref":
                t = t.get("to") or self._deref_ty(t)
            elif isinstance(e, dict) and "field" in e:
                t = self.tcx.subst(e["ty"], inst.subst)
            elif isinstance(e, dict) and "downcast" in e:
                pass
            else:
                t = t.get("to", {"k": "other", "s": "?"})
        return t

    def _deref_ty(self, t):
        return {"k": "other", "s": "?"}

    # ------------------------------------------------------------------ memory
    def canon(self, st, path):
        root, proj = path
        for i in range(len(proj), -1, -1):
            b = st.base.get((root, proj[:i]))
            if b is not None:
                return (b[0], b[1] + proj[i:])
        return path

    def ver_of(self, st, path):
        path = self.canon(st, path)
        root, proj = path
        vs = []
        for i in range(len(proj) + 1):
            v = st.ver.get((root, proj[:i]))
            if v is not None:
                vs.append(v)
        return tuple(vs) if vs else 0

    def default_load(self, st, path, ty):
        # base alias
        root, proj = path
        for i in range(len(proj), -1, -1):
            b = st.base.get((root, proj[:i]))
            if b is not None:
                path = (b[0], b[1] + proj[i:])
                break
        a = ("init", path, self.ver_of(st, path))
        return self.wrap(a, ty)

    def wrap(self, atom, ty):
        if ty is not None and is_int_ty(ty):
            return Poly.atom(atom)
        return atom

    def load(self, st, path, ty=None):
        env = st.env
        v = env.get(path)
        if v is not None:
            return v
        root, proj = path
        for i in range(len(proj) - 1, -1, -1):
            pv = env.get((root, proj[:i]))
            if pv is not None:
                rest = proj[i:]
                return self.project(pv, rest, ty)
        return self.default_load(st, path, ty)

    def project(self, v, rest, ty):
        if isinstance(v, tuple) and v:
            if v[0] == "some" and rest[:2] == ("as:Some", "0"):
                if len(rest) == 2:
                    return v[1]
                return self.project(v[1], rest[2:], ty)
            if v[0] == "checked" and rest[:2] == ("as:Some", "0") and len(rest) == 2:
                return self.arith(v[1], v[2], v[3])
            if v[0] == "bcloned" and rest and isinstance(rest[0], str) and rest[0].startswith("as:"):
                inner = self.project(v[1], rest, None)
                return Poly.atom(("init", (("D", inner), ()), 0))
            if v[0] == "optj" and rest[:2] == ("as:Some", "0"):
                if len(rest) == 2:
                    return v[3]
                return self.project(v[3], rest[2:], ty)
            if v[0] == "nonnull_opt" and rest[:2] == ("as:Some", "0"):
                # payload of `match NonNull::new(p) { Some(m) => m, .. }`: the pointer itself (the null test is the SWITCH on the discriminant)
                if len(rest) == 2:
                    return v[1]
                return self.project(v[1], rest[2:], ty)
            if v[0] == "layout_res" and rest[:2] == ("as:Ok", "0") and len(rest) == 2:
                return ("layout", v[1], v[2], "checked")
            if v[0] == "pair" and len(rest) == 1:
                if rest[0] in ("0", "1"):
                    return v[1 + int(rest[0])]
            if v[0] == "range" and len(rest) == 1 and rest[0] in ("start", "end"):
                return v[1] if rest[0] == "start" else v[2]
        return self.wrap(("fld", v if not isinstance(v, Poly) else ("poly", v), rest), ty)

    def kill_under(self, st, path):
        for k in [k for k in st.env if sub_of(path, k)]:
            del st.env[k]
        for k in [k for k in st.base if sub_of(path, k)]:
            del st.base[k]

    def explode_parents(self, st, path):
        root, proj = path
        for i in range(len(proj) - 1, -1, -1):
            pp = (root, proj[:i])
            pv = st.env.get(pp)
            if pv is not None:
                # a leaf at a parent: turn it into a base-less opaque; children become fld atoms lazily.
                # we keep the leaf as `base value` by recording an opaque-parent marker.
                del st.env[pp]
                st.env[(root, proj[:i] + ("$opaque",))] = pv
                # reads of other children now fall to default_load; acceptable loss of precision.
                break

    def store(self, st, path, v):
        self.kill_under(st, path)
        self.explode_parents(st, path)
        st.env[path] = v

    def copy_tree(self, st, src, dst):
        if src == dst:
            return
        leaf = st.env.get(src)
        items = [(k, v) for k, v in st.env.items() if sub_of(src, k)]
        bases = [(k, v) for k, v in st.base.items() if sub_of(src, k)]
        # base of src itself
        sbase = None
        root, proj = src
        for i in range(len(proj), -1, -1):
            b = st.base.get((root, proj[:i]))
            if b is not None:
                sbase = (b[0], b[1] + proj[i:])
                break
        # value held by a parent leaf?
        parent_leaf = None
        if leaf is None and not items:
            for i in range(len(proj) - 1, -1, -1):
                pv = st.env.get((root, proj[:i]))
                if pv is not None:
                    parent_leaf = self.project(pv, proj[i:], None)
                    break
        self.kill_under(st, dst)
        self.explode_parents(st, dst)
        if leaf is not None:
            st.env[dst] = leaf
            return
        if parent_leaf is not None:
            st.env[dst] = parent_leaf
            return
        n = len(src[1])
        for k, v in items:
            st.env[(dst[0], dst[1] + k[1][n:])] = v
        for k, v in bases:
            st.base[(dst[0], dst[1] + k[1][n:])] = v
        if dst not in st.base:
            st.base[dst] = sbase if sbase is not None else src

    def havoc(self, st, path, site):
        cp = self.canon(st, path)
        self.kill_under(st, path)
        st.ver[cp] = site

    # ------------------------------------------------------------------ places / operands
    def eval_place(self, st, inst, place):
        path = (("L", inst.loff + place["local"]), ())
        ty = self.local_ty(inst, place["local"])
        for e in place["proj"]:
            if e == "deref":
                v = self.load(st, path, ty)
                path = self.deref(v)
                ty = ty.get("to") or {"k": "other", "s": "?"}
            elif isinstance(e, dict) and "field" in e:
                if path[0][0] == "AV" and not path[1] and e["field"] == "raw":
                    path = (("V", path[0][1]), ())
                elif ty.get("k") == "adt" and self.scalar_newtype(ty.get("path")):
                    pass      # a private newtype around one scalar / pointer is transparent: it is its field
                else:
                    path = (path[0], path[1] + (e["field"],))
                ty = self.tcx.subst(e["ty"], inst.subst)
            elif isinstance(e, dict) and "downcast" in e:
                path = (path[0], path[1] + ("as:" + e["downcast"],))
            elif isinstance(e, dict) and "index" in e:
                path = (path[0], path[1] + ("[]",))
                ty = ty.get("to", {"k": "other", "s": "?"})
            else:
                path = (path[0], path[1] + ("?",))
                ty = ty.get("to", {"k": "other", "s": "?"})
        return path, ty

    def deref(self, v):
        if isinstance(v, tuple) and v:
            if v[0] == "ref":
                return v[1]
            if v[0] in ("ptr", "slice"):
                return (("M", v), ())
        return (("D", v), ())

    def eval_operand(self, st, inst, op):
        if "copy" in op or "move" in op:
            place = op.get("copy") or op.get("move")
            path, ty = self.eval_place(st, inst, place)
            if is_scalar_ty(ty):
                return self.load(st, path, ty)
            leaf = st.env.get(path)
            if leaf is not None:
                return leaf
            # projected out of a parent leaf (e.g. field of an opaque call result)?
            root, proj = path
            has_sub = any(sub_of(path, k) for k in st.env) or any(sub_of(path, k) for k in st.base)
            if not has_sub:
                for i in range(len(proj) - 1, -1, -1):
                    pv = st.env.get((root, proj[:i]))
                    if pv is not None:
                        return self.project(pv, proj[i:], ty)
            return Tree(path, ty)
        c = op["const"]
        ty = self.tcx.subst(c["ty"], inst.subst)
        if "fn" in c:
            return ("fnitem", c["fn"]["path"], tuple(ty_str(self.tcx.subst(a, inst.subst)) for a in c["fn"].get("generic_args", []) if a.get("k") != "region"))
        if "val" in c and (is_int_ty(ty) or ty.get("k") in ("bool", "char")):
            if ty.get("k") == "bool":
                return ("bconst", int(c["val"]))
            return Poly.const(int(c["val"]))
        if "uneval" in c:
            args = tuple(ty_str(self.tcx.subst(a, inst.subst)) for a in c.get("uneval_args", []) if a.get("k") != "region")
            if is_int_ty(ty) or ty.get("k") == "bool":
                # a scalar constant of this crate (`const SIZE: usize = size_of::<T>()`): evaluate its body under the substitution
                v = self.eval_local_const(c, inst)
                if v is not None:
                    return v
            a = ("aconst", c["uneval"], args)
            return self.wrap(a, ty)
        if is_int_ty(ty) and ty.get("k") == "uint" and c.get("s") in inst.subst:
            pass
        s = c.get("s", "?")
        # const generic parameter
        if ty.get("k") == "bool":
            cv = inst.subst.get(s)
            if cv is not None and cv.get("s") in ("true", "false"):
                return ("bconst", 1 if cv["s"] == "true" else 0)
        if is_int_ty(ty):
            cv = inst.subst.get(s)
            if cv is not None and cv.get("s", "").isdigit():
                return Poly.const(int(cv["s"]))
            return Poly.atom(("cparam", cv.get("s") if cv else s))
        return ("const", s, ty_str(ty))

    def eval_local_const(self, c, inst, depth=0):
        cf = self.fx.fns.get(c["uneval"])
        if cf is None or not cf.get("blocks") or depth > 3 or len(cf["blocks"]) > 12:
            return None
        targs = [self.tcx.subst(a, inst.subst) for a in c.get("uneval_args", []) if a.get("k") != "region"]
        gens = [g for g in cf.get("generics", []) if g.get("kind") != "lifetime"]
        if len(gens) != len(targs):
            return None
        sub = {g["name"]: a for g, a in zip(gens, targs)}
        key = (c["uneval"], repr(sorted((k, ty_str(v)) for k, v in sub.items())))
        cache = self.fx.__dict__.setdefault("_const_cache", {})      # per fact base (a worker process analyses several trees)
        if key in cache:
            return cache[key]
        cache[key] = None
        try:
            from .graph import Graph
            g = Graph(self.fx, cf, sub, max_depth=3)
            J = Interp(g)
            J.run()
            rets = J.all_effects(("RETURN",))
            v = rets[0]["value"] if len(rets) == 1 else None
            if isinstance(v, Poly) or (isinstance(v, tuple) and v and v[0] in ("bconst", "needs_drop", "cmp", "not")):
                cache[key] = v
        except Exception:
            cache[key] = None
        return cache[key]

    def assign(self, st, path, ty, v):
        if isinstance(v, Tree):
            self.copy_tree(st, v.path, path)
        elif isinstance(v, tuple) and len(v) == 3 and v[0] == "pair" and not isinstance(v[1], Tree) and not isinstance(v[2], Tree):
            # (value, overflow-flag) and other scalar pairs are kept per component, so that a join inside a loop joins the components
            self.kill_under(st, path)
            self.explode_parents(st, path)
            st.env.pop(path, None)
            st.env[(path[0], path[1] + ("0",))] = v[1]
            st.env[(path[0], path[1] + ("1",))] = v[2]
        else:
            self.store(st, path, v)

    # ------------------------------------------------------------------ arithmetic
    def arith(self, op, a, b):
        a, b = as_poly(a), as_poly(b)
        if op in ("Add", "AddUnchecked"):
            return a + b
        if op in ("Sub", "SubUnchecked"):
            return a - b
        if op in ("Mul", "MulUnchecked"):
            return a * b
        if op == "Div":
            cb = b.const_value()
            ca = a.const_value()
            if ca is not None and cb:
                return Poly.const(ca // cb)
            return Poly.atom(("div", a, b))
        return Poly.atom((op.lower(), a, b))

    def eval_rvalue(self, st, inst, rv, node, idx, line):
        k = rv["k"]
        if k == "use":
            return self.eval_operand(st, inst, rv["args"][0])
        if k in ("ref", "addr"):
            path, ty = self.eval_place(st, inst, rv["place"])
            # reference to memory addressed by a raw pointer stays that pointer
            if path[0][0] == "M" and not path[1]:
                if k == "ref":
                    # `&*p` / `&mut *p`: a reference is made from a raw pointer (the pointee must be a live, in-bounds value)
                    self.eff(node, idx, "REFOF", ptr=path[0][1], mut=bool(rv.get("mut")), line=line)
                return path[0][1]
            return ("ref", path)
        if k == "bin":
            op = rv["op"]
            a = self.eval_operand(st, inst, rv["args"][0])
            b = self.eval_operand(st, inst, rv["args"][1])
            wide = False
            try:
                o0 = rv["args"][0]
                pl0 = o0.get("copy") or o0.get("move") if isinstance(o0, dict) else None
                if pl0 is not None:
                    t0 = self.place_ty(inst, pl0)
                    wide = t0.get("s") in ("u128", "i128")
            except Exception:
                wide = False
            if op in ("Add", "Sub", "Mul", "AddUnchecked", "SubUnchecked", "MulUnchecked", "Div", "Rem", "BitAnd", "BitOr", "Shl", "Shr"):
                r = self.arith(op, a, b)
                if op in ("Add", "Sub", "Mul") and not (wide and op != "Sub"):
                    self.eff(node, idx, "ARITH", op=op, a=as_poly(a), b=as_poly(b), checked=False, line=line, how="bare")
                if op == "Sub" and isinstance(r, Poly) and not r.is_const() and not implies_ge0(st.facts, r):
                    # an unchecked unsigned subtraction (overflow checks off) that is not known to stay >= 0 may wrap. The value keeps its polynomial
                    # form (struct invariants such as index <= end are not visible here), but a comparison of exactly this value yields no fact about
                    # the integer difference: `last = len - 1; assert!(i <= last)` proves nothing on an empty vector
                    self.eff(node, idx, "WRAPSUB", a=as_poly(a), b=as_poly(b), line=line)
                    st.wrapped = st.wrapped | frozenset([r])
                return r
            if op in ("AddWithOverflow", "SubWithOverflow", "MulWithOverflow"):
                base = op[:3]
                r = self.arith(base, a, b)
                if not (wide and base != "Sub"):
                    # (sums and products of values widened from usize to u128 cannot overflow: no arithmetic obligation)
                    self.eff(node, idx, "ARITH", op=base, a=as_poly(a), b=as_poly(b), checked=True, line=line, how="debug-assert")
                return ("pair", r, ("ovf", base, as_poly(a), as_poly(b)))
            if op in NEG:
                if self.is_ptrlike(a) or self.is_ptrlike(b):
                    return ("pcmp", op, a, b)
                if self._is_boolish(a) or self._is_boolish(b):
                    return ("bcmp", op, a, b)
                pa, pb = as_poly(a), as_poly(b)
                if st.wrapped:
                    if pa in st.wrapped:
                        pa = Poly.atom(("wrapped", ("poly", pa)))
                    if pb in st.wrapped:
                        pb = Poly.atom(("wrapped", ("poly", pb)))
                return ("cmp", op, pa, pb)
            if op == "Offset":
                return self.ptr_add(a, as_poly(b), None)
            return ("binop", op, a, b)
        if k == "un":
            a = self.eval_operand(st, inst, rv["args"][0])
            if rv["op"] == "Not":
                if isinstance(a, tuple) and a and a[0] == "bconst":
                    return ("bconst", 1 - a[1])
                return ("not", a)
            if rv["op"] == "Neg":
                return -as_poly(a)
            if rv["op"] == "PtrMetadata":
                if isinstance(a, tuple) and a and a[0] == "slice":
                    return a[2]
                return Poly.atom(("ptrmeta", a))
            return ("unop", rv["op"], a)
        if k == "cast":
            a = self.eval_operand(st, inst, rv["args"][0])
            ck = rv["cast"]
            ty = self.tcx.subst(rv["ty"], inst.subst)
            if ck == "ptr_to_ptr" or ck.startswith("coerce:MutToConstPointer") or ck == "transmute":
                return self.retype_ptr(a, ty)
            if ck.startswith("coerce:"):
                if "ReifyFnPointer" in ck or "ClosureFnPointer" in ck or "UnsafeFnPointer" in ck:
                    return a
                if "Unsize" in ck:
                    return a
                return a
            if ck in ("int_to_int",):
                return a
            if ck in ("ptr_expose",):
                return Poly.atom(("addr", a))
            if ck in ("ptr_from_exposed",):
                if isinstance(a, Poly):
                    at = a.atoms()
                    # `layout.align() as *mut u8` : pointer whose address is the polynomial
                    return ("ptr", ("ADDR", a), Poly(), ty_str(ty.get("to", {"s": "u8"})))
                return ("ptr", ("ADDR", a), Poly(), ty_str(ty.get("to", {"s": "u8"})))
            return a
        if k == "discr":
            path, ty = self.eval_place(st, inst, rv["place"])
            vm = st.env.get((path[0], path[1] + ("$variant",)))
            if vm is not None and ty.get("k") == "adt":
                names = ["None", "Some"] if ty.get("path") == "core::option::Option" else \
                    [v_["name"] for v_ in (self.fx.adts.get(ty.get("path")) or {}).get("variants", [])]
                if isinstance(vm, tuple) and vm[0] == "const" and vm[1] in names:
                    return Poly.const(names.index(vm[1]))       # a value of a local enum built here: its variant is known
                if isinstance(vm, tuple) and vm[0] == "enumj":
                    self.enumj_names[(vm[1], vm[2])] = names
                    return Poly.atom(("discr", vm))
            dd = st.env.get((path[0], path[1] + ("$discr",)))
            if isinstance(dd, Poly):
                return dd          # an Option / enum kept in field form: its discriminant cell
            v = st.env.get(path)
            if v is None:
                # maybe projected from parent
                v = self.load(st, path, None)
            if isinstance(v, tuple) and v:
                if v[0] == "some":
                    return Poly.const(1)
                if v[0] == "none":
                    return Poly.const(0)
                if v[0] == "bcloned":
                    return Poly.atom(("discr", v[1]))
            return Poly.atom(("discr", v if not isinstance(v, Poly) else ("poly", v)))
        if k == "agg":
            return ("AGG", rv, [self.eval_operand(st, inst, a) for a in rv["args"]])
        return ("rv?", rv.get("s", k))

    def _is_boolish(self, v):
        return isinstance(v, tuple) and v and v[0] in ("bconst", "cmp", "not", "teq", "boolj")

    def is_ptrlike(self, v):
        return isinstance(v, tuple) and v and v[0] in ("ptr", "ref")

    def retype_ptr(self, a, ty):
        if isinstance(a, tuple) and a and a[0] == "ptr":
            to = ty.get("to")
            return ("ptr", a[1], a[2], ty_str(to) if to else a[3])
        return a

    def ptr_add(self, p, n, ety, sign=1):
        """p.add(n) for a pointer whose element type is ety (string) -- byte offset polynomial"""
        if isinstance(p, tuple) and p and p[0] == "ptr":
            e = ety or p[3]
            stride = Poly.const(1) if e in ("u8", "core::mem::MaybeUninit<u8>", "i8") else Poly.atom(("SIZEOF", e))
            off = p[2] + (n * stride if sign > 0 else -(n * stride))
            return ("ptr", p[1], off, e)
        # unknown pointer: make it a base
        e = ety or "?"
        stride = Poly.const(1) if e in ("u8", "core::mem::MaybeUninit<u8>", "i8") else Poly.atom(("SIZEOF", e))
        return ("ptr", ("PBASE", p), n * stride if sign > 0 else -(n * stride), e)

    # ------------------------------------------------------------------ effects
    def eff(self, node, idx, kind, **d):
        if self.cur_state is not None:
            d.setdefault("facts", self.cur_state.facts)
            d["ver"] = dict(self.cur_state.ver)
            d["lens"] = {self.canon(self.cur_state, k): v for k, v in self.cur_state.env.items() if k[1] and k[1][-1] == "len"}
        e = Effect(kind, node.gid, idx, node, **d)
        self.effects.setdefault((node.gid, idx), []).append(e)
        return e

    # ------------------------------------------------------------------ run
    def init_state(self):
        st = State()
        inst = self.g.entry
        fn = inst.fn
        for i in range(1, fn.get("arg_count", 0) + 1):
            ty = self.local_ty(inst, i)
            cell = (("L", inst.loff + i), ())
            if self.entry_args and i in self.entry_args:
                st.env[cell] = self.entry_args[i]
                continue
            if ty.get("k") in ("ref",):
                st.env[cell] = ("ref", (("P", i), ()))
            elif ty.get("k") == "ptr":
                st.env[cell] = ("ptr", ("param", i), Poly(), ty_str(ty["to"]))
            elif is_int_ty(ty):
                st.env[cell] = Poly.atom(("param", i))
            elif is_scalar_ty(ty):
                st.env[cell] = ("param", i)
            else:
                # aggregate / generic by-value parameter: an object of its own
                st.base[cell] = (("A", i), ())
        st.facts = self.entry_facts
        return st

    def join(self, gid, a, b):
        """join state b into a (a is the stored in-state); returns (state, changed)"""
        changed = False
        env = {}
        # an Option built as `None` in one arm and as `Some(aggregate)` in another: bring both sides to the variant-marker form used for local enums
        for x in (a, b):
            y = b if x is a else a
            for k0, v0 in list(x.env.items()):
                if v0 == ("none",) and k0[0][0] == "L" and y.env.get((k0[0], k0[1] + ("$discr",))) is not None:
                    del x.env[k0]
                    x.env[(k0[0], k0[1] + ("$variant",))] = ("const", "None", "")
            for k0, v0 in list(x.env.items()):
                if k0[1] and k0[1][-1] == "$discr" and k0[0][0] == "L" and (k0[0], k0[1][:-1] + ("$variant",)) in y.env \
                        and (k0[0], k0[1][:-1] + ("$variant",)) not in x.env:
                    x.env[(k0[0], k0[1][:-1] + ("$variant",))] = ("const", "Some" if v0 == Poly.const(1) else "None", "")
                    del x.env[k0]
        keys = set(a.env) | set(b.env)
        for k in keys:
            va = a.env.get(k)
            vb = b.env.get(k)
            if va is None or vb is None:
                # present on one side only
                if k[0][0] == "L" and any(isinstance(c_, str) and c_.startswith("as:") for c_ in k[1]) and not (k[1] and k[1][-1] in ("$discr",)):
                    # payload of one variant of a local enum built in several arms: only read under that variant - keep it
                    env[k] = va if va is not None else vb
                    if env[k] != a.env.get(k):
                        changed = True
                    continue
                if k[0][0] == "L":
                    # local not defined on one path: treat as undefined -> drop (reads give init atoms)
                    if va is not None:
                        changed = True
                    continue
                other = a if va is None else b
                dv = self.load(other, k, None)
                if va is None:
                    va = dv
                else:
                    vb = dv
                if isinstance(va, Poly) and not isinstance(vb, Poly):
                    vb = as_poly(vb)
                if isinstance(vb, Poly) and not isinstance(va, Poly):
                    va = as_poly(va)
            if va != vb and k[1] and k[1][-1] == "$variant":
                ej = self._enum_join(gid, k, va, vb, a, b)
                if ej is not None:
                    env[k] = ej[0]
                    if ej[1] or env[k] != a.env.get(k):
                        changed = True
                    continue
            if va != vb:
                # `if x != y { x = y }`: one side stored y, the other side knows x == y: both leave x == y
                ev = self._eq_join(va, vb, a, b)
                if ev is not None:
                    env[k] = ev
                    if env[k] != a.env.get(k):
                        changed = True
                    continue
            oj = None if va == vb else self._opt_join(gid, k, va, vb, a, b)
            if oj is None and va != vb:
                bj = self._bool_join(gid, k, va, vb, a, b)
                if bj is not None:
                    oj = (bj, False)
            if va == vb:
                env[k] = va
            elif oj is not None:
                env[k] = oj[0]
                if oj[1]:
                    changed = True
            else:
                phi = ("phi", gid, k)
                nv = Poly.atom(phi) if (isinstance(va, Poly) or isinstance(vb, Poly)) else phi
                env[k] = nv
            if env.get(k) != a.env.get(k):
                changed = True
        base = {}
        lost = []
        for k in set(a.base) | set(b.base):
            va, vb = a.base.get(k), b.base.get(k)
            if va == vb:
                base[k] = va
                continue
            kept = None
            if va is None or vb is None:
                # `if x != y { x = y }` on an aggregate field: the side that did not store knows the two are equal
                q, other = (va, b) if vb is None else (vb, a)
                kept = q if self._alias_eq_fact(other, k, q) else None
            if kept is not None:
                base[k] = kept
            elif k[0][0] != "L":
                lost.append(k)
        if base != a.base:
            changed = True
        ver = {}
        for k in set(a.ver) | set(b.ver):
            va, vb = a.ver.get(k), b.ver.get(k)
            ver[k] = va if va == vb else ("j", gid)
        for k in lost:
            # a field of a tracked object that was overwritten on one path only: later reads must not see the original value
            ver[k] = ("j", gid)
        if ver != a.ver:
            changed = True
        facts = a.facts & b.facts
        if facts != a.facts:
            changed = True
        wrapped = a.wrapped | b.wrapped
        if wrapped != a.wrapped:
            changed = True
        return State(env, base, ver, facts, wrapped), changed

    def _alias_eq_fact(self, st, k, q):
        """state st (in which path k was NOT overwritten) knows that k and q hold equal values: a type-id equality test on the two fields themselves, or - for
        the destructor field - on the sibling type_id fields (one element type has one destructor)"""
        def fact(p1, p2):
            x, y = ("init", p1, self.ver_of(st, p1)), ("init", p2, self.ver_of(st, p2))
            return ("teq", x, y) in st.facts or ("teq", y, x) in st.facts
        if fact(k, q):
            return True
        if k[1] and q[1] and k[1][-1] == "drop_fn" and q[1][-1] == "drop_fn":
            return fact((k[0], k[1][:-1] + ("type_id",)), (q[0], q[1][:-1] + ("type_id",)))
        return False

    def _eq_join(self, va, vb, a, b):
        def norm(v, st):
            if isinstance(v, tuple) and len(v) == 2 and v[0] == "alias" and isinstance(v[1], tuple) and len(v[1]) == 2:
                return ("init", v[1], self.ver_of(st, v[1]))
            return v
        for (x, sx, y, sy) in ((va, a, vb, b), (vb, b, va, a)):
            # x was stored (a copy of some other object's field), y is what the other path knows to be equal to it
            if not (isinstance(x, tuple) and x and x[0] == "alias"):
                continue
            nx, ny = norm(x, sy), norm(y, sy)
            if ("teq", ny, nx) in sy.facts or ("teq", nx, ny) in sy.facts:
                return x
        return None

    def _opt_join(self, gid, k, va, vb, a, b):
        """join of Some(x) with None (an Option built in two arms of a callee and returned): keep the payload and remember which facts hold on which
        side, so that a later `match`/`if let` on the result recovers the condition under which it is Some. -> (value, side-table changed) or None"""
        def kind(v):
            if isinstance(v, tuple) and v:
                if v[0] == "some" and not isinstance(v[1], Tree):
                    return "some"
                if v[0] == "none":
                    return "none"
                if v[0] == "optj" and v[1] == gid and v[2] == k:
                    return "optj"
            return None
        ka, kb = kind(va), kind(vb)
        if ka is None or kb is None or ka == kb:
            return None
        joined = a.facts & b.facts
        old = self.optj.get((gid, k))
        if ka == "optj" or kb == "optj":
            if old is None:
                return None
            oj, other, ost = (va, vb, b) if ka == "optj" else (vb, va, a)
            ko = kind(other)
            sd, nd = old
            if ko == "some":
                if other[1] != oj[3]:
                    return None
                sd = sd & ost.facts
            else:
                nd = nd & ost.facts
            sd, nd = sd - joined, nd - joined
            self.optj[(gid, k)] = (sd, nd)
            return oj, (sd, nd) != old
        sv, sst, nst = (va, a, b) if ka == "some" else (vb, b, a)
        new = (sst.facts - joined, nst.facts - joined)
        self.optj[(gid, k)] = new
        return ("optj", gid, k, sv[1]), new != old

    def _enum_join(self, gid, k, va, vb, a, b):
        """a value of a local enum built as different variants in different arms (`enum Growth { Keep, Expand(n) }` computed once, matched later): remember,
        per variant, what held where it was built; the payload cells of each variant are kept by the caller. -> (marker value, side table changed) or None"""
        def names(v, st):
            if isinstance(v, tuple) and v:
                if v[0] == "const":
                    return {v[1]: frozenset(st.facts)}
                if v[0] == "enumj" and v[1] == gid and v[2] == k:
                    return {n: f | (a.facts & b.facts) for n, f in self.enumj.get((gid, k), {}).items()}
            return None
        na, nb = names(va, a), names(vb, b)
        if na is None or nb is None:
            return None
        joined = a.facts & b.facts
        merged = {}
        for n in set(na) | set(nb):
            if n in na and n in nb:
                merged[n] = (na[n] & nb[n]) - joined
            else:
                merged[n] = (na.get(n) if n in na else nb[n]) - joined
        old = self.enumj.get((gid, k))
        self.enumj[(gid, k)] = merged
        return ("enumj", gid, k), merged != old

    def enumj_facts(self, d, val, eq):
        if isinstance(d, Poly) and len(d.m) == 1:
            (mono, c), = d.m.items()
            if c == 1 and len(mono) == 1 and isinstance(mono[0], tuple) and mono[0][0] == "discr" and isinstance(mono[0][1], tuple) and mono[0][1][:1] == ("enumj",):
                key = (mono[0][1][1], mono[0][1][2])
                side = self.enumj.get(key, {})
                names = self.enumj_names.get(key, [])
                if eq:
                    if 0 <= val < len(names):
                        return list(side.get(names[val], [("false",)] if names[val] not in side else []))
                    return []
                # `!= val`: if exactly one other variant can have been built, its facts hold
                others = [n for n in side if not (0 <= val < len(names) and names[val] == n)]
                if len(others) == 1:
                    return list(side[others[0]])
        return []

    def _bool_join(self, gid, k, va, vb, a, b):
        """join of two boolean values of which at least one is a constant: remember what held on the arm(s) that can yield true / false"""
        def shape(v):
            if isinstance(v, tuple) and v:
                if v[0] == "bconst" and v[1] in (0, 1):
                    return "c%d" % v[1]
                if v[0] in ("cmp", "not", "teq", "pcmp", "bcmp"):
                    return "x"
                if v[0] == "boolj" and v[1] == gid and v[2] == k:
                    return "j"
            return None
        sa, sb = shape(va), shape(vb)
        if sa is None or sb is None or (sa == "x" and sb == "x") or (sa == "j" and sb == "j"):
            return None
        joined = a.facts & b.facts

        def sides(v, sh, st):
            """(facts if this arm yields true, facts if it yields false); None = this arm cannot yield that value"""
            if sh == "c1":
                return frozenset(st.facts), None
            if sh == "c0":
                return None, frozenset(st.facts)
            if sh == "x":
                return frozenset(st.facts) | frozenset(bool_facts(v, True)), frozenset(st.facts) | frozenset(bool_facts(v, False))
            return frozenset(v[3]) | joined, frozenset(v[4]) | joined      # an earlier join of the same cell
        ta, fa = sides(va, sa, a)
        tb, fb = sides(vb, sb, b)

        def meet(x, y):
            if x is None:
                return y if y is not None else frozenset()
            if y is None:
                return x
            return x & y
        tf, ff = meet(ta, tb) - joined, meet(fa, fb) - joined
        return ("boolj", gid, k, tf, ff)

    def optj_facts(self, d, val, eq):
        """facts implied by `discriminant(optj) == val` (eq) / `!= val`"""
        if isinstance(d, Poly) and len(d.m) == 1:
            (mono, c), = d.m.items()
            if c == 1 and len(mono) == 1 and isinstance(mono[0], tuple) and mono[0][0] == "discr" and isinstance(mono[0][1], tuple) and mono[0][1][:1] == ("optj",):
                oj = mono[0][1]
                side = self.optj.get((oj[1], oj[2]))
                if side is None or val not in (0, 1):
                    return []
                is_some = (val == 1) == eq
                return list(side[0] if is_some else side[1])
        return []

    def run(self):
        g = self.g
        entry = g.entry.bmap[0]
        self.in_state[entry] = self.init_state()
        order = g.rpo(normal_only=False)
        pos = {x: i for i, x in enumerate(order)}
        work = set([entry])
        rounds = 0
        while work:
            rounds += 1
            if rounds > 20000:
                raise RuntimeError("interp: no fixpoint in %s" % g.entry.path())
            gid = min(work, key=lambda x: pos.get(x, 1 << 30))
            work.discard(gid)
            st = self.in_state[gid].copy()
            outs = self.step(gid, st)
            # several out-states towards the same successor (a predicate closure returning true / false) are joined first
            grouped = {}
            order_ = []
            for (succ, ost) in outs:
                if succ in grouped:
                    grouped[succ], _ch = self.join(succ, grouped[succ], ost)
                else:
                    grouped[succ] = ost
                    order_.append(succ)
            outs = [(succ, grouped[succ]) for succ in order_]
            for (succ, ost) in outs:
                self.edges.add((gid, succ))
                self.out_states[(gid, succ)] = ost
                if succ not in self.in_state:
                    self.in_state[succ] = ost
                    work.add(succ)
                elif len({pg for (pg, _k) in g.nodes[succ].preds}) == 1:
                    # a node with one predecessor takes that predecessor's latest out-state (joining it with its own earlier visits would
                    # turn every value computed inside a loop body into an opaque phi)
                    cur = self.in_state[succ]
                    if cur.env != ost.env or cur.base != ost.base or cur.ver != ost.ver or cur.facts != ost.facts or cur.wrapped != ost.wrapped:
                        self.in_state[succ] = ost
                        work.add(succ)
                else:
                    js, ch = self.join(succ, self.in_state[succ], ost)
                    if ch:
                        self.in_state[succ] = js
                        work.add(succ)

    # one block ----------------------------------------------------------
    def step(self, gid, st):
        node = self.g.nodes[gid]
        inst = node.inst
        self.cur_state = st
        # clear effects of earlier visits of this node
        for key in [k for k in self.effects if k[0] == gid]:
            del self.effects[key]
        self.unclassified.pop(gid, None)
        for idx, s in enumerate(node.data["stmts"]):
            if "dst" not in s:
                continue
            line = s.get("line")
            rv = s["rv"]
            if rv["k"] == "set_discr":
                continue
            dpath, dty = self.eval_place(st, inst, s["dst"])
            v = self.eval_rvalue(st, inst, rv, node, idx, line)
            if isinstance(v, tuple) and v and v[0] == "AGG":
                self.assign_agg(st, inst, dpath, dty, v[1], v[2])
            else:
                self.assign(st, dpath, dty, v)
            self.note_store(st, node, idx, dpath, dty, v, line)
        return self.terminator(gid, node, inst, st)

    def scalar_newtype(self, adt_path):
        """local struct with exactly one field, of scalar / pointer kind (`struct SlotPtr(NonNull<u8>)`, `struct Bytes(usize)`)"""
        c = self._newtype_cache
        if adt_path not in c:
            a = self.fx.adts.get(adt_path)
            ok = False
            if a and a.get("kind") == "Struct" and len(a["variants"]) == 1 and len(a["variants"][0]["fields"]) == 1 \
                    and a["variants"][0]["fields"][0]["name"] == "0":      # tuple newtype; structs with a named field keep it (rules read roles off field names)
                ft = a["variants"][0]["fields"][0]["ty"]
                ok = ft.get("k") in ("uint", "int", "ptr", "bool") or (ft.get("k") == "adt" and ft.get("path") in ("core::ptr::NonNull", "core::mem::MaybeUninit"))
            c[adt_path] = ok
        return c[adt_path]

    def assign_agg(self, st, inst, dpath, dty, rv, vals):
        self.kill_under(st, dpath)
        self.explode_parents(st, dpath)
        if "adt" in rv and self.scalar_newtype(rv["adt"]) and len(vals) == 1:
            if isinstance(vals[0], Tree):
                self.copy_tree(st, vals[0].path, dpath)
            else:
                st.env[dpath] = vals[0]
            return
        if "adt" in rv:
            adt = rv["adt"]
            if adt == "core::option::Option":
                if rv["variant"] == "Some":
                    v = vals[0]
                    if isinstance(v, Tree):
                        self.copy_tree(st, v.path, (dpath[0], dpath[1] + ("as:Some", "0")))
                        st.env[(dpath[0], dpath[1] + ("$discr",))] = Poly.const(1)
                    else:
                        st.env[dpath] = ("some", v)
                else:
                    st.env[dpath] = ("none",)
                return
            if adt == "core::ops::Range" and len(vals) == 2 and not any(isinstance(v, Tree) for v in vals):
                st.env[dpath] = ("range", as_poly(vals[0]), as_poly(vals[1]))
                return
            adtd = self.fx.adts.get(adt)
            kind = adtd["kind"] if adtd else "Struct"
            pre = ()
            if kind == "Enum":
                pre = ("as:" + rv["variant"],)
                st.env[(dpath[0], dpath[1] + ("$variant",))] = ("const", rv["variant"], "")
            for f, v in zip(rv["fields"], vals):
                p = (dpath[0], dpath[1] + pre + (f,))
                if isinstance(v, Tree):
                    self.copy_tree(st, v.path, p)
                else:
                    st.env[p] = v
            if not rv["fields"] and kind != "Enum":
                st.env[dpath] = ("unit", adt)      # (a fieldless enum variant is its `$variant` marker, which must travel with the value)
        else:
            ak = rv.get("agg_kind")
            if ak == "tuple":
                if len(vals) == 2 and not any(isinstance(v, Tree) for v in vals):
                    st.env[dpath] = ("pair", vals[0], vals[1])
                    return
                if not vals:
                    st.env[dpath] = ("unit", "()")
                    return
                for i, v in enumerate(vals):
                    p = (dpath[0], dpath[1] + (str(i),))
                    if isinstance(v, Tree):
                        self.copy_tree(st, v.path, p)
                    else:
                        st.env[p] = v
            elif ak == "rawptr":
                st.env[dpath] = self.retype_ptr(vals[0], {"to": rv.get("to")}) if not isinstance(vals[0], Tree) else ("rawptr?",)
                if len(vals) > 1 and isinstance(st.env[dpath], tuple) and st.env[dpath][0] == "ptr":
                    # slice pointer from (data, len)
                    if isinstance(vals[1], Poly):
                        st.env[dpath] = ("slice", st.env[dpath], vals[1], ty_str(rv["to"]) if rv.get("to") else "?")
            elif ak == "closure":
                if not vals:
                    st.env[dpath] = ("closure", rv["closure"])
                else:
                    # captured variables are the fields "0", "1", ... of the closure value
                    st.env[(dpath[0], dpath[1] + ("$closure",))] = ("closure", rv["closure"])
                    for i, v in enumerate(vals):
                        p = (dpath[0], dpath[1] + (str(i),))
                        if isinstance(v, Tree):
                            self.copy_tree(st, v.path, p)
                        else:
                            st.env[p] = v
            else:
                st.env[dpath] = ("agg?", ak)

    def note_store(self, st, node, idx, dpath, dty, v, line):
        """stores through references into tracked objects are effects (L= in particular)"""
        root, proj = dpath
        if root[0] == "L":
            return
        snap = self.snapshot(st, v.path) if isinstance(v, Tree) else None
        self.eff(node, idx, "STORE", path=dpath, value=v, line=line, ty=ty_str(dty) if dty else "?", snap=snap)

    def snapshot(self, st, rpath):
        """the aggregate currently stored under rpath, as ("tree", ((field path, value), ...)) (a single leaf: ("tree", (((), value),)))"""
        leaf = st.env.get(rpath)
        if leaf is not None:
            return ("tree", (((), leaf),))
        sub = {k[1][len(rpath[1]):]: v for k, v in st.env.items() if sub_of(rpath, k)}
        for k, b in st.base.items():
            if sub_of(rpath, k) and k[1][len(rpath[1]):] not in sub:
                sub[k[1][len(rpath[1]):]] = ("alias", b)
        return ("tree", tuple(sorted(sub.items(), key=lambda kv: repr(kv[0]))))

    # ------------------------------------------------------------------ terminators
    def terminator(self, gid, node, inst, st):
        t = node.data["term"]
        k = t["k"]
        g = self.g
        outs = []
        nidx = len(node.data["stmts"])
        line = t.get("line")

        def normal_succs():
            return [s for (s, kd) in node.succs if kd == "normal"]

        def unwind_succs():
            return [s for (s, kd) in node.succs if kd == "unwind"]

        if k == "goto":
            return [(s, st) for s in normal_succs()]
        if k == "switch":
            d = self.eval_operand(st, inst, t["discr"])
            self.eff(node, nidx, "SWITCH", discr=d, line=line)
            vals = t["values"]
            tgs = [inst.bmap[x] for x in t["targets"]]
            res = []
            # decided type tests are pruned (compile-time constants of the instantiation)
            decided = None
            if isinstance(d, tuple) and d and d[0] == "bconst" and d[1] in (0, 1) and len(d) > 2 and d[2] == "typetest":
                decided = d[1]
            if isinstance(d, tuple) and d and d[0] == "not" and isinstance(d[1], tuple) and d[1][0] == "bconst" and len(d[1]) > 2:
                decided = 1 - d[1][1]
            for i, tg in enumerate(tgs):
                s2 = st.copy() if len(tgs) > 1 else st
                if i < len(vals):
                    val = int(vals[i])
                    if decided is not None and val != decided:
                        continue
                    nf = self.switch_facts(d, val, True) + self.optj_facts(d, val, True) + self.enumj_facts(d, val, True)
                else:
                    if decided is not None and str(decided) in vals:
                        continue
                    nf = []
                    for vv in vals:
                        nf += self.switch_facts(d, int(vv), False) + self.optj_facts(d, int(vv), False)
                    # the otherwise arm of a match on a joined local enum: the variants not listed
                    if isinstance(d, Poly) and len(d.m) == 1 and len(list(d.atoms())) == 1 and isinstance(list(d.atoms())[0], tuple) \
                            and list(d.atoms())[0][:1] == ("discr",) and isinstance(list(d.atoms())[0][1], tuple) and list(d.atoms())[0][1][:1] == ("enumj",):
                        key_ = (list(d.atoms())[0][1][1], list(d.atoms())[0][1][2])
                        names_ = self.enumj_names.get(key_, [])
                        rest_ = [n_ for n_ in self.enumj.get(key_, {}) if n_ not in [names_[int(x_)] for x_ in vals if int(x_) < len(names_)]]
                        if len(rest_) == 1:
                            nf += list(self.enumj[key_][rest_[0]])
                        elif not rest_ and self.enumj.get(key_):
                            nf += [("false",)]
                    if isinstance(d, tuple) and d and d[0] in ("cmp", "not", "teq", "bcmp", "pcmp", "call", "typetest", "boolj") and vals == ["0"]:
                        nf = bool_facts(d, True)
                if ("false",) in nf:
                    continue
                if st.facts and any(contradicts(st.facts, f) for f in nf):
                    continue      # infeasible under the facts that hold on every path to this switch
                s2.facts = s2.facts | frozenset(nf)
                res.append((tg, s2))
            return res
        if k == "assert":
            c = self.eval_operand(st, inst, t["cond"])
            exp = t["expected"]
            nf = bool_facts(c, exp)
            msg = t.get("msg", "")
            if isinstance(c, tuple) and c and c[0] == "ovf":
                nf = [("novf", c[1], c[2], c[3])]
            self.eff(node, nidx, "ASSERT", cond=c, expected=exp, msg=msg, line=line)
            s2 = st
            s2.facts = s2.facts | frozenset(nf)
            res = [(s, s2) for s in normal_succs()]
            res += [(s, st.copy()) for s in unwind_succs()]
            return res
        if k == "drop":
            path, ty = self.eval_place(st, inst, t["place"])
            dty = self.tcx.subst(t["ty"], inst.subst)
            self.eff(node, nidx, "DROP", path=path, ty=dty, line=line, facts=st.facts)
            if node.callee_inst is not None and node.closure_call == "dropglue":
                # a local scope guard: its Drop::drop(&mut guard) runs here
                ci = node.callee_inst
                self.eff(node, nidx, "ENTER", callee=ci.path(), args=[("ref", path)], line=line, facts=st.facts, cinst=ci, closure="dropglue")
                ust = st.copy()
                self.store(st, (("L", ci.loff + 1), ()), ("ref", path))
                res = [(ci.bmap[0], st)]
                res += [(s, ust) for s in unwind_succs()]
                return res
            res = [(s, st) for s in normal_succs()]
            res += [(s, st.copy()) for s in unwind_succs()]
            return res
        if k == "return":
            if inst.parent is not None:
                cnode = g.nodes[inst.call_gid]
                ct = cnode.data["term"]
                # copy return value into the caller's destination
                rpath = (("L", inst.loff + 0), ())
                rty = self.local_ty(inst, 0)
                if cnode.closure_call == "dropglue":
                    self.eff(node, nidx, "LEAVE", callee=inst.path(), call_gid=inst.call_gid, line=line)
                    return [(s, st) for s in normal_succs()]
                dpath, dty = self.eval_place(st, inst.parent, ct["dest"])
                if cnode.closure_call:
                    outs = self.closure_return(st, inst, cnode, rpath, rty, dpath)
                    self.eff(node, nidx, "LEAVE", callee=inst.path(), call_gid=inst.call_gid, line=line)
                    return [(s, o) for o in outs for s in normal_succs()]      # (for_each: the successor is the call node - next iteration)
                elif is_scalar_ty(rty):
                    self.store(st, dpath, self.load(st, rpath, rty))
                else:
                    leaf = st.env.get(rpath)
                    if leaf is not None:
                        self.store(st, dpath, leaf)
                    else:
                        self.copy_tree(st, rpath, dpath)
                self.eff(node, nidx, "LEAVE", callee=inst.path(), call_gid=inst.call_gid, line=line)
                return [(s, st) for s in normal_succs()]
            self.eff(node, nidx, "RETURN", line=line, value=self.ret_value(st, inst))
            return []
        if k == "resume":
            return [(s, st) for s in unwind_succs()]
        if k in ("unreachable", "terminate"):
            return []
        if k == "call":
            return self.call(gid, node, inst, st, t, nidx, line)
        self.unclassified[gid] = "terminator %s" % k
        return [(s, st) for s in normal_succs()]

    def ret_value(self, st, inst):
        rpath = (("L", inst.loff), ())
        rty = self.local_ty(inst, 0)
        if is_scalar_ty(rty):
            return self.load(st, rpath, rty)
        leaf = st.env.get(rpath)
        if leaf is not None:
            return leaf
        sub = {k[1]: v for k, v in st.env.items() if sub_of(rpath, k)}
        for k, b in st.base.items():
            if sub_of(rpath, k) and k[1] not in sub:
                sub[k[1]] = ("alias", b)
        return ("tree", tuple(sorted(sub.items(), key=lambda kv: repr(kv[0]))))

    def switch_facts(self, d, val, eq):
        if isinstance(d, Poly):
            c = d.const_value()
            if c is not None:
                return [] if ((c == val) == eq) else [("false",)]
            return [("eq0" if eq else "ne0", canon_sign(d - Poly.const(val)))]
        if isinstance(d, tuple) and d:
            if d[0] == "bconst":
                return [] if ((d[1] == val) == eq) else [("false",)]
            truth = (val != 0) if eq else (val == 0)
            return bool_facts(d, truth)
        return []

    # ------------------------------------------------------------------ calls
    def call(self, gid, node, inst, st, t, nidx, line):
        from . import models
        g = self.g
        callee = t["callee"]
        args = [self.eval_operand(st, inst, a) for a in t["args"]]
        normal = [s for (s, kd) in node.succs if kd == "normal"]
        unwind = [s for (s, kd) in node.succs if kd == "unwind"]
        rec = {"callee": callee, "args": args, "inst": inst, "node": node, "facts": st.facts, "line": line,
               "inlined": node.callee_inst is not None}
        self.calls[gid] = rec
        if node.callee_inst is not None and node.closure_call:
            return self.closure_call(gid, node, inst, st, t, nidx, line, args, normal, unwind)
        if node.callee_inst is not None:
            ci = node.callee_inst
            cfn = ci.fn
            if node.deref_self and args and isinstance(args[0], tuple) and args[0][:1] == ("ref",):
                args[0] = self.load(st, args[0][1], None)
            self.eff(node, nidx, "ENTER", callee=ci.path(), args=args, line=line, facts=st.facts, cinst=ci)
            ust = st.copy() if unwind else None
            for i, a in enumerate(args):
                cell = (("L", ci.loff + i + 1), ())
                if isinstance(a, Tree):
                    self.copy_tree(st, a.path, cell)
                else:
                    self.store(st, cell, a)
            res = [(ci.bmap[0], st)]
            return res
        dpath, dty = self.eval_place(st, inst, t["dest"])
        ust = st.copy() if unwind else None
        r = models.apply(self, st, inst, node, nidx, callee, args, t, dty, line)
        if r is models.DIVERGE:
            return [(s, ust) for s in unwind] if ust is not None else []
        if isinstance(r, Tree):
            self.copy_tree(st, r.path, dpath)
        elif r is not None:
            self.store(st, dpath, r)
        res = [(s, st) for s in normal]
        if ust is not None:
            res += [(s, ust) for s in unwind]
        return res

    def _opt_parts(self, st, sel):
        """discriminant polynomial and payload of an Option value"""
        if isinstance(sel, Tree):
            d = st.env.get((sel.path[0], sel.path[1] + ("$discr",)))
            d = d if isinstance(d, Poly) else Poly.atom(("discr", ("tree", sel.path)))
            return d, Tree((sel.path[0], sel.path[1] + ("as:Some", "0")), None)
        if isinstance(sel, tuple) and sel and sel[0] == "some":
            return Poly.const(1), sel[1]
        if isinstance(sel, tuple) and sel and sel[0] == "none":
            return Poly.const(0), None
        return Poly.atom(("discr", sel if not isinstance(sel, Poly) else ("poly", sel))), self.project(sel, ("as:Some", "0"), None)

    def closure_call(self, gid, node, inst, st, t, nidx, line, args, normal, unwind):
        """core combinators that only invoke the closure they are given (`cond.then(f)`, `opt.map(f)`, `opt.and_then(f)`, `opt.filter(p)`, `opt.map_or(d, f)`)
        and direct calls of a closure value: the closure body is part of the graph; the state splits on the condition / discriminant"""
        from .graph import CLOSURE_ARG
        ci = node.callee_inst
        kind = node.closure_call
        entry = ci.bmap[0]
        targets = [s for s in normal if s != entry]
        dpath, dty = self.eval_place(st, inst, t["dest"])
        res = []
        ca = CLOSURE_ARG[kind]
        payload = None
        if kind == "then":
            yes_f, no_f = bool_facts(args[0], True), bool_facts(args[0], False)
        elif kind == "call":
            yes_f, no_f = [], [("false",)]
        elif kind == "for_each":
            # one more iteration, or the range is exhausted
            yes_f, no_f = [], []
            rng = args[0]
            direction = "asc"
            if isinstance(rng, tuple) and rng[:2] == ("iteradapt", "rev") and rng[2]:
                rng, direction = rng[2][0], "desc"
            site = ("s", gid)
            self.eff(node, nidx, "RANGE_NEXT", direction=direction, range=rng if not isinstance(rng, Tree) else ("tree", rng.path), path=None, line=line)
            payload = Poly.atom(("rangenext", site, direction, rng if not isinstance(rng, Tree) else ("tree", rng.path)))
        else:
            d, payload = self._opt_parts(st, args[0])
            yes_f = self.switch_facts(d, 1, True) + self.optj_facts(d, 1, True)
            no_f = self.switch_facts(d, 0, True) + self.optj_facts(d, 0, True)

        def feasible(nf):
            return ("false",) not in nf and not (st.facts and any(contradicts(st.facts, f) for f in nf))
        if feasible(no_f):
            s0 = st.copy()
            s0.facts = s0.facts | frozenset(no_f)
            if kind == "map_or":
                self.assign(s0, dpath, dty, args[1])
            elif kind == "is_some_and":
                self.store(s0, dpath, ("bconst", 0))
            elif kind == "for_each":
                self.store(s0, dpath, ("unit", "()"))
            else:
                self.store(s0, dpath, ("none",))
            res += [(s, s0) for s in targets]
        if feasible(yes_f):
            s1 = st
            s1.facts = s1.facts | frozenset(yes_f)
            self.eff(node, nidx, "ENTER", callee=ci.path(), args=args[ca + 1:], line=line, facts=s1.facts, cinst=ci, closure=kind)
            # the closure environment
            cell = (("L", ci.loff + 1), ())
            lty = self.local_ty(ci, 1)
            cop = t["args"][ca]
            cplace = cop.get("move") or cop.get("copy")
            cval = args[ca]
            if lty.get("k") == "ref" and not (isinstance(cval, tuple) and cval and cval[0] == "ref") and cplace is not None:
                # Fn / FnMut closure passed by value and called once: the body takes the environment by reference
                ep, _ = self.eval_place(s1, inst, cplace)
                self.store(s1, cell, ("ref", ep))
            elif lty.get("k") != "ref" and isinstance(cval, tuple) and cval and cval[0] == "ref":
                self.copy_tree(s1, cval[1], cell)        # FnOnce body, called through a reference (shim): copy of the environment
            elif isinstance(cval, Tree):
                self.copy_tree(s1, cval.path, cell)
            else:
                self.store(s1, cell, cval)
            # the closure's own parameters
            if kind == "call":
                tup = args[1] if len(args) > 1 else None
                n_par = ci.fn.get("arg_count", 1) - 1
                for i in range(n_par):
                    pc = (("L", ci.loff + 2 + i), ())
                    if isinstance(tup, Tree):
                        self.copy_tree(s1, (tup.path[0], tup.path[1] + (str(i),)), pc)
                    elif isinstance(tup, tuple) and tup and tup[0] == "pair" and i < 2:
                        self.store(s1, pc, tup[1 + i])
                    elif tup is not None and n_par == 1 and not (isinstance(tup, tuple) and tup and tup[0] == "unit"):
                        self.store(s1, pc, self.project(tup, ("0",), None))
            elif kind in ("map", "and_then", "map_or", "filter", "is_some_and", "for_each"):
                pc = (("L", ci.loff + 2), ())
                if kind == "filter":
                    # the predicate takes a reference to the payload: give the payload a cell of its own
                    tcell = (("T", gid), ())
                    if isinstance(payload, Tree):
                        self.copy_tree(s1, payload.path, tcell)
                    else:
                        self.store(s1, tcell, payload)
                    self.store(s1, pc, ("ref", tcell))
                elif isinstance(payload, Tree):
                    self.copy_tree(s1, payload.path, pc)
                else:
                    self.store(s1, pc, payload)
            res.append((entry, s1))
        return res

    def closure_return(self, st, inst, cnode, rpath, rty, dpath):
        """-> list of states leaving the closure towards the combinator's continuation"""
        kind = cnode.closure_call
        leaf = self.load(st, rpath, rty) if is_scalar_ty(rty) else st.env.get(rpath)
        if kind == "for_each":
            return [st]
        if kind in ("and_then", "map_or", "call", "is_some_and"):
            if leaf is not None:
                self.assign(st, dpath, None, leaf)
            else:
                self.copy_tree(st, rpath, dpath)
            return [st]
        if kind == "filter":
            tcell = (("T", cnode.gid), ())
            pv = st.env.get(tcell)
            outs = []
            for truth in (True, False):
                nf = bool_facts(leaf, truth) if leaf is not None else []
                if ("false",) in nf or (st.facts and any(contradicts(st.facts, f) for f in nf)):
                    continue
                s2 = st.copy()
                s2.facts = s2.facts | frozenset(nf)
                self.kill_under(s2, dpath)
                self.explode_parents(s2, dpath)
                if not truth:
                    s2.env[dpath] = ("none",)
                elif pv is not None:
                    s2.env[dpath] = ("some", pv)
                else:
                    self.copy_tree(s2, tcell, (dpath[0], dpath[1] + ("as:Some", "0")))
                    s2.env[(dpath[0], dpath[1] + ("$discr",))] = Poly.const(1)
                outs.append(s2)
            return outs
        # then / map: the closure's result becomes Some(result)
        self.kill_under(st, dpath)
        self.explode_parents(st, dpath)
        if leaf is not None:
            st.env[dpath] = ("some", leaf)
        else:
            self.copy_tree(st, rpath, (dpath[0], dpath[1] + ("as:Some", "0")))
            st.env[(dpath[0], dpath[1] + ("$discr",))] = Poly.const(1)
        return [st]

    # ------------------------------------------------------------------ CFG restricted to the edges taken under this arm assignment
    def _succs(self, g, normal_only=True):
        out = []
        for (s, k) in self.g.nodes[g].succs:
            if normal_only and k != "normal":
                continue
            if (g, s) in self.edges:
                out.append(s)
        return out

    def dominators(self):
        if self._idom is not None:
            return self._idom
        entry = self.g.entry.bmap[0]
        # reverse post-order over taken normal edges
        seen = {entry}
        order = []
        stack = [(entry, iter(self._succs(entry)))]
        while stack:
            g, it = stack[-1]
            nxt = next(it, None)
            if nxt is None:
                order.append(g)
                stack.pop()
            elif nxt not in seen:
                seen.add(nxt)
                stack.append((nxt, iter(self._succs(nxt))))
        order.reverse()
        idx = {g: i for i, g in enumerate(order)}
        preds = {}
        for g in order:
            for s in self._succs(g):
                preds.setdefault(s, []).append(g)
        idom = {entry: entry}
        changed = True
        while changed:
            changed = False
            for g in order[1:]:
                ps = [p for p in preds.get(g, []) if p in idom]
                if not ps:
                    continue
                new = ps[0]
                for p in ps[1:]:
                    a, b = p, new
                    while a != b:
                        while idx[a] > idx[b]:
                            a = idom[a]
                        while idx[b] > idx[a]:
                            b = idom[b]
                    new = a
                if idom.get(g) != new:
                    idom[g] = new
                    changed = True
        self._idom = idom
        return idom

    def reachable_from(self, g, normal_only=True):
        key = (g, normal_only)
        r = self._reach.get(key)
        if r is None:
            r = set()
            st = [g]
            while st:
                x = st.pop()
                for s in self._succs(x, normal_only):
                    if s not in r:
                        r.add(s)
                        st.append(s)
            self._reach[key] = r
        return r

    # ------------------------------------------------------------------ queries
    def all_effects(self, kinds=None):
        out = []
        for key in sorted(self.effects):
            for e in self.effects[key]:
                if kinds is None or e.kind in kinds:
                    out.append(e)
        return out

    def out_value(self, gid, key, succ=None):
        """value of an environment cell when control leaves node gid (towards succ)"""
        for (g, s_), st in self.out_states.items():
            if g == gid and (succ is None or s_ == succ):
                v = st.env.get(key)
                if v is not None:
                    return v
        return None

    def effects_at(self, gid):
        out = []
        for key in sorted(k for k in self.effects if k[0] == gid):
            out += self.effects[key]
        return out

    def facts_at(self, gid):
        s = self.in_state.get(gid)
        return s.facts if s else frozenset()

    def reachable(self, gid):
        return gid in self.in_state


# ---------------------------------------------------------------------- fact implication

def implies_ge0(facts, q, depth=3):
    """does the fact set imply polynomial q >= 0 (all atoms are unsigned, hence >= 0)?"""
    if q.nonneg_coeffs():
        return True
    ge = []
    for f in facts:
        if f[0] == "ge0":
            ge.append(f[1])
        elif f[0] == "eq0":
            ge.append(f[1])
            ge.append(-f[1])
        elif f[0] == "ne0":
            # unsigned quantities: p != 0 with p a sum of non-negative terms means p >= 1
            if f[1].nonneg_coeffs():
                ge.append(f[1] - Poly.const(1))
            elif (-f[1]).nonneg_coeffs():
                ge.append(-f[1] - Poly.const(1))
    # p != 0 together with p >= 0 (a stated fact) gives p >= 1
    for f in facts:
        if f[0] == "ne0":
            for g_ in list(ge):
                if g_ == f[1]:
                    ge.append(f[1] - Poly.const(1))
                elif g_ == -f[1]:
                    ge.append(-f[1] - Poly.const(1))
    # min / max terms left symbolic: min(a,b) <= a, b ; max(a,b) >= a, b
    mm = set()
    for p_ in [q] + ge:
        for a_ in p_.atoms():
            if isinstance(a_, tuple) and len(a_) == 3 and a_[0] in ("min", "max") and isinstance(a_[1], Poly) and isinstance(a_[2], Poly):
                mm.add(a_)
    for a_ in mm:
        t_ = Poly.atom(a_)
        for x_ in (a_[1], a_[2]):
            ge.append(x_ - t_ if a_[0] == "min" else t_ - x_)
    return _imp(ge, q, depth)


def _imp(ge, q, depth):
    if q.nonneg_coeffs():
        return True
    if depth == 0:
        return False
    for p in ge:
        r = q - p
        if r.nonneg_coeffs():
            return True
    if depth > 1:
        for p in ge:
            if _imp(ge, q - p, depth - 1):
                return True
    return False


def implies(facts, fact):
    if fact in facts:
        return True
    if fact[0] == "ge0":
        return implies_ge0(facts, fact[1])
    if fact[0] == "eq0":
        return implies_ge0(facts, fact[1]) and implies_ge0(facts, -fact[1])
    if fact[0] == "ne0":
        # p != 0 follows from p - 1 >= 0 or -p - 1 >= 0
        return implies_ge0(facts, fact[1] - Poly.const(1)) or implies_ge0(facts, -fact[1] - Poly.const(1))
    return False


def contradicts(facts, f):
    """the must-facts exclude f"""
    k = f[0]
    if k == "eq0":
        return implies(facts, ("ne0", f[1]))
    if k == "ne0":
        return implies(facts, ("eq0", f[1]))
    if k == "ge0":
        return implies_ge0(facts, -f[1] - Poly.const(1))
    if k == "teq":
        return ("tne", f[1], f[2]) in facts
    if k == "tne":
        return ("teq", f[1], f[2]) in facts
    if k == "true":
        return ("isfalse", f[1]) in facts
    if k == "isfalse":
        return ("true", f[1]) in facts
    return False


def type_test_params(graph):
    """distinct undecided type arguments of `Unknown::is::<T>()` tests (and TypeId::of::<Unknown> comparisons) in the graph"""
    out = []
    tcx = graph.tcx
    for n in graph.nodes:
        t = n.data["term"]
        if t["k"] != "call" or "indirect" in t["callee"]:
            continue
        c = t["callee"]
        if c["path"] == "any_value::Unknown::is":
            ga = [a for a in c.get("generic_args", []) if a.get("k") != "region"]
            ty = tcx.subst(ga[0], n.inst.subst)
            if ty.get("k") in ("param", "alias"):
                s = ty_str(ty)
                if s not in out:
                    out.append(s)
    # TempValue::value_typeid compares TypeId::of::<Self::Type>() with TypeId::of::<Unknown>()
    for n in graph.nodes:
        t = n.data["term"]
        if t["k"] == "call" and "indirect" not in t["callee"] and t["callee"]["path"] == "core::any::TypeId::of":
            ga = [a for a in t["callee"].get("generic_args", []) if a.get("k") != "region"]
            ty = tcx.subst(ga[0], n.inst.subst)
            if tcx.is_unknown_marker(ty):
                # find sibling TypeId::of::<T> in same instance
                for m in graph.nodes:
                    if m.inst is n.inst:
                        t2 = m.data["term"]
                        if t2["k"] == "call" and "indirect" not in t2["callee"] and t2["callee"]["path"] == "core::any::TypeId::of":
                            ga2 = [a for a in t2["callee"].get("generic_args", []) if a.get("k") != "region"]
                            ty2 = tcx.subst(ga2[0], m.inst.subst)
                            if ty2.get("k") in ("param", "alias"):
                                s = ty_str(ty2)
                                if s not in out:
                                    out.append(s)
    return out


def analyze_arms(graph, entry_args=None, max_params=3, entry_facts=None):
    """one interpretation per assignment of the compile-time type tests ("typed" / "erased" arms)"""
    import itertools
    ps = type_test_params(graph)[:max_params]
    res = []
    for vals in itertools.product([True, False], repeat=len(ps)):
        tt = dict(zip(ps, vals))
        res.append((tt, Interp(graph, entry_args=entry_args, type_tests=tt, entry_facts=entry_facts)))
    return res
