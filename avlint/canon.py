"""Canonical function ids that do not depend on the names of generic parameters or lifetimes
(`any_vec::AnyVec::push`, `<iter::Iter as core::iter::Iterator>::next`,
`<any_vec_ptr::AnyVecPtr as core::convert::From<&mut any_vec::AnyVec>>::from`)."""
import re

PATH2CANON = {}


def canon_ty(t):
    k = t.get("k")
    if k in ("param", "alias", "region", "const"):
        return "_"
    if k == "adt":
        args = [canon_ty(a) for a in t.get("args", []) if a.get("k") != "region"]
        if any(a != "_" for a in args):
            return "%s<%s>" % (t["path"], ",".join(args))
        return t["path"]
    if k == "ref":
        return ("&mut " if t.get("mut") else "&") + canon_ty(t["to"])
    if k == "ptr":
        return ("*mut " if t.get("mut") else "*const ") + canon_ty(t["to"])
    if k in ("slice", "array"):
        return "[%s]" % canon_ty(t["to"])
    if k == "tuple":
        return "(%s)" % ",".join(canon_ty(e) for e in t.get("elems", []))
    if k == "dyn":
        return t.get("s", "dyn")
    return t.get("s", "?")


def build(fx):
    """-> {def path: canonical id}, {canonical id: def path}"""
    impl_of = {}
    for im in fx.impls:
        for it in im["items"]:
            impl_of[it["path"]] = im
    p2c, c2p = {}, {}
    # closures / nested items: canonical parent + suffix
    for f in fx.fn_list:
        path = f["path"]
        if path in p2c:
            continue
        im = impl_of.get(path)
        name = f.get("name")
        cid = None
        if im is not None and name:
            st = canon_ty(im["self_ty"])
            if im.get("trait"):
                targs = [canon_ty(a) for a in im.get("trait_args", [])[1:] if a.get("k") != "region"]
                tr = im["trait"] + ("<%s>" % ",".join(targs) if any(a != "_" for a in targs) else "")
                cid = "<%s as %s>::%s" % (st, tr, name)
            else:
                cid = "%s::%s" % (im["self_ty"].get("path", st), name)
        elif f.get("parent_kind") == "Trait" and name:
            cid = "%s::%s" % (f["parent"], name)
        else:
            cid = path
        p2c[path] = cid
    # closures and nested consts: rewrite their parent prefix
    for f in fx.fn_list:
        path = f["path"]
        if "::{closure#" in path or "::{constant#" in path:
            base, _, rest = path.partition("::{")
            if base in p2c:
                p2c[path] = p2c[base] + "::{" + rest
    # uniqueness: fall back to the def path on collisions
    seen = {}
    for p, c in list(p2c.items()):
        if c in seen and seen[c] != p:
            p2c[p] = p
            p2c[seen[c]] = seen[c]
        else:
            seen[c] = p
    for p, c in p2c.items():
        c2p[c] = p
    return p2c, c2p


def register(p2c):
    PATH2CANON.update(p2c)


_SPLIT = None


def canon_str(s):
    """replace every known def path inside s by its canonical id (longest first)"""
    if not s:
        return s
    if s in PATH2CANON:
        return PATH2CANON[s]
    out = s
    for p in _sorted_paths():
        if p in out and PATH2CANON[p] != p:
            out = out.replace(p, PATH2CANON[p])
    return out


_cache = [0, []]


def _sorted_paths():
    if _cache[0] != len(PATH2CANON):
        _cache[0] = len(PATH2CANON)
        _cache[1] = sorted((p for p in PATH2CANON if ("<" in p)), key=len, reverse=True)
    return _cache[1]
