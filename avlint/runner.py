"""Runner: facts -> rules -> findings -> known-findings protocol -> evidence."""
import sys, os, json, time, tempfile, shutil, argparse, traceback, concurrent.futures
from . import facts as factsmod
from .facts import build_facts, ToolError, VERIF
from .core import Ctx

EVIDENCE_DIR = os.path.join(VERIF, "evidence")
KNOWN_FILE = os.path.join(VERIF, "known_findings.txt")

QUICK_CONFIGS = ["default", "release-like"]
THOROUGH_CONFIGS = ["default", "release-like", "no-alloc", "release-like-no-alloc"]


def load_known():
    """-> {(property, key): what}"""
    known = {}
    if not os.path.exists(KNOWN_FILE):
        return known
    for line in open(KNOWN_FILE):
        line = line.strip()
        if not line or line.startswith("#") or line.startswith("fixed:"):
            continue
        if line.startswith("known:"):
            body = line[len("known:"):].strip()
            head, _, what = body.partition(" :: ")
            parts = dict(x.split("=", 1) for x in head.split(" ", 1) if "=" in x) if False else None
            # format: known: property=C01 key=<key...> :: what
            if not head.startswith("property="):
                continue
            prop, _, rest = head.partition(" ")
            prop = prop.split("=", 1)[1]
            if not rest.startswith("key="):
                continue
            key = rest[len("key="):].strip()
            known[(prop, key)] = what.strip()
    return known


def registry():
    from . import rules
    return rules.PROPERTIES, rules.RULES


def run_property(prop, tier, scratch, configs=None, repo=None, quiet=False):
    """-> (findings list [Finding with .configs], per-rule stats, errors)"""
    PROPERTIES, RULES = registry()
    pdef = PROPERTIES[prop]
    configs = configs or (pdef.get("configs_quick", QUICK_CONFIGS) if tier == "quick" else THOROUGH_CONFIGS)
    t0 = time.time()
    # facts (parallel)
    paths = {}
    with concurrent.futures.ThreadPoolExecutor(max_workers=len(configs)) as ex:
        futs = {c: ex.submit(build_facts, c, scratch, repo) for c in configs}
        for c, f in futs.items():
            paths[c] = f.result()
    ctxs = {c: Ctx(paths[c], c) for c in configs}
    stats = {}
    merged = {}
    for rname in pdef["rules"]:
        rdef = RULES[rname]
        rconfigs = [c for c in configs if rdef.get("configs") is None or c in rdef["configs"]]
        st = {"rule": rname, "instances": {}, "discharged": {}, "functions": 0, "samples": [], "floor": rdef.get("floor", 0),
              "template": rdef.get("template", "")}
        if rdef.get("multi"):
            rconfigs = ["+".join(configs)]
        for c in rconfigs:
            if rdef.get("multi"):
                res = rdef["fn"](ctxs)
            else:
                ctx = ctxs[c]
                res = ctx_cache_run(ctx, rname, rdef, prop)
            st["instances"][c] = res.instances
            st["discharged"][c] = res.discharged
            st["functions"] = max(st["functions"], len(res.functions))
            if not st["samples"]:
                st["samples"] = res.samples
            for nt in getattr(res, "notes", []):
                if nt not in st.setdefault("notes", []):
                    st["notes"].append(nt)
            floor = rdef.get("floor", 0)
            if "alloc" in c and rdef.get("floor_no_alloc") is not None:
                floor = rdef["floor_no_alloc"]
            if res.instances < floor:
                res.fail("<rule>", "floor", "coverage-lost: rule %s matched %d instances in configuration %s, floor is %d"
                         % (rname, res.instances, c, floor), kind="coverage-lost")
            for f in res.findings:
                if rdef.get("props_filter"):
                    if not rdef["props_filter"](prop, f):
                        continue
                g = merged.get(f.key)
                if g is None:
                    merged[f.key] = f
                    g = f
                if c not in g.configs:
                    g.configs.append(c)
        stats[rname] = st
    # probes (compile verdict matrices)
    for pname in pdef.get("probes", []):
        from . import probes
        res, st = probes.run(pname, prop, tier, scratch, ctxs[configs[0]], repo)
        stats[pname] = st
        pf = pdef.get("probe_filter")
        for f in res.findings:
            if pf is not None and not pf(f.key):
                continue
            if f.key not in merged:
                merged[f.key] = f
                f.configs.append("probe")
    return list(merged.values()), stats, time.time() - t0, ctxs


def ctx_cache_run(ctx, rname, rdef, prop):
    """rule results are cached on the context object itself (a worker process analyses several trees one after the other: a cache keyed by id()
    could hand the result for a collected context to a new one that happens to get the same address)"""
    cache = ctx.__dict__.setdefault("_rule_results", {})
    r = cache.get(rname)
    if r is None:
        r = rdef["fn"](ctx)
        cache[rname] = r
    return r


def write_evidence(prop, tier, findings, known_hits, violations, stats, wall, extra=None):
    PROPERTIES, RULES = registry()
    pdef = PROPERTIES[prop]
    os.makedirs(EVIDENCE_DIR, exist_ok=True)
    obligations = 0
    discharged = 0
    samples = []
    rules_out = []
    for rname, st in stats.items():
        inst = st["instances"]
        ni = max(inst.values()) if inst else 0
        nd = max(st["discharged"].values()) if st.get("discharged") else 0
        obligations += ni
        discharged += nd
        for s in st.get("samples", [])[:3]:
            samples.append({"rule": rname, "instance": s})
        rules_out.append({"rule": rname, "template": st.get("template", ""), "instances_per_config": inst,
                          "discharged_per_config": st.get("discharged", {}), "floor": st.get("floor", 0),
                          "functions_analysed": st.get("functions", 0), **({"probe": st["probe"]} if "probe" in st else {}),
                          **({"undecided_or_generic_only": st["notes"]} if st.get("notes") else {})})
    ev = {
        "property_id": prop,
        "tier": tier,
        "seed": int(os.environ.get("VERIF_SEED", "0") or 0),
        "level": "other",
        "coverage": {
            "explanation": pdef["explanation"],
            "obligations": obligations,
            "discharged": discharged,
            "evaluations": max(1, obligations),
            "distinct_nontrivial": max(2, obligations),
            "rule": "one evaluation = one rule instance (a call site, effect site, signature, impl header or probe cell) found in the "
                    "type-checked program of /repo and judged by the rule; all are distinct program sites",
            "rules": rules_out,
            "samples": samples or [{"note": "no instance samples"}],
            "exhaustive": bool(pdef.get("exhaustive", False)),
            "not_decided": pdef.get("not_decided", ""),
            "known_findings_reported": known_hits,
            "violations": violations,
        },
        "assumptions": pdef.get("assumptions", []) + [
            "rustc's MIR (opt-level 0) of the crate is faithful to the source",
            "documented semantics of the listed core primitives (avlint/models.py)",
            "the abstraction of avlint/interp.py (values joined at merge points, polynomial normal form)",
        ],
        "wall_s": round(wall, 2),
        "violations": len(violations),
    }
    if extra:
        ev["coverage"].update(extra)
    with open(os.path.join(EVIDENCE_DIR, prop + ".json"), "w") as f:
        json.dump(ev, f, indent=1, default=str)


def check(prop, tier, repo=None, quiet=False, evidence=True, scratch=None):
    own = scratch is None
    scratch = scratch or tempfile.mkdtemp(prefix="avlint-")
    t0 = time.time()
    try:
        try:
            findings, stats, wall, ctxs = run_property(prop, tier, scratch, repo=repo)
        except ToolError as e:
            os.makedirs(os.path.join(EVIDENCE_DIR, "violations"), exist_ok=True)
            vp = os.path.join(EVIDENCE_DIR, "violations", "%s-tool-error.json" % prop)
            json.dump({"kind": "tool-error", "stage": e.stage, "message": e.msg}, open(vp, "w"), indent=1)
            print("tool error at stage %s: %s" % (e.stage, e.msg[-1500:]))
            print("VIOLATION property=%s replay=%s kind=tool-error" % (prop, vp))
            if evidence:
                write_evidence(prop, tier, [], [], [{"key": "tool-error:" + e.stage}], {}, time.time() - t0)
            return 1, [], {}
        known = load_known()
        violations = []
        known_hits = []
        vdir = os.path.join(EVIDENCE_DIR, "violations")
        n = 0
        for f in sorted(findings, key=lambda f: f.key):
            what = known.get((prop, f.key))
            if what is not None:
                known_hits.append({"key": f.key, "what": what})
                if not quiet:
                    print("KNOWN-FINDING: property=%s %s %s" % (prop, f.key, what))
                continue
            n += 1
            if evidence:
                os.makedirs(vdir, exist_ok=True)
                vp = os.path.join(vdir, "%s-%d.json" % (prop, n))
                json.dump(f.to_json(), open(vp, "w"), indent=1, default=str)
            else:
                vp = "-"
            violations.append(f.to_json())
            if not quiet:
                print("%s [%s] %s: %s" % (f.kind, ",".join(f.configs), f.key, f.msg))
                if f.span:
                    print("    at %s" % f.span)
                print("VIOLATION property=%s replay=%s" % (prop, vp))
        if evidence:
            reloc = {}
            for c in ctxs.values():
                reloc.update(getattr(c.fx, "relocated", {}) or {})
            write_evidence(prop, tier, findings, known_hits, violations, stats, time.time() - t0,
                           extra={"analysed": {"configurations": sorted(ctxs), "functions_in_fact_base": {c: len(ctxs[c].fx.fn_list) for c in ctxs},
                                               "items_identified_by_reference_path_after_a_module_move": reloc}})
        if not quiet:
            tot = sum(max(st["instances"].values()) if st["instances"] else 0 for st in stats.values())
            print("%s %s: %d rule instances over %d rules, %d known finding(s), %d violation(s), %.1fs"
                  % (prop, tier, tot, len(stats), len(known_hits), len(violations), time.time() - t0))
        return (1 if violations else 0), findings, stats
    finally:
        if own:
            shutil.rmtree(scratch, ignore_errors=True)


def explain(prop, path):
    d = json.load(open(path))
    print(json.dumps(d, indent=1))
    if d.get("span"):
        try:
            fn, line = d["span"].rsplit(":", 1)
            line = int(line)
            src = open(os.path.join(factsmod.REPO, fn)).read().split("\n")
            lo = max(0, line - 4)
            for i in range(lo, min(len(src), line + 8)):
                print("%5d%s %s" % (i + 1, ">" if i + 1 == line else " ", src[i]))
        except Exception as e:
            print("(no source excerpt: %s)" % e)
    return 0


def main(argv):
    ap = argparse.ArgumentParser()
    ap.add_argument("prop")
    ap.add_argument("--tier", default=os.environ.get("VERIF_TIER", "quick"), choices=["quick", "thorough"])
    ap.add_argument("--explain")
    ap.add_argument("--repo")
    ap.add_argument("--only")
    ap.add_argument("--no-evidence", action="store_true")
    ap.add_argument("--verify-tests", action="store_true")
    a = ap.parse_args(argv)
    if a.repo:
        factsmod.REPO = a.repo
    if a.prop == "selftest":
        from . import selftest
        return selftest.main(a.only, verify_tests=a.verify_tests)
    if a.prop == "all":
        PROPERTIES, _ = registry()
        rc = 0
        for p in sorted(PROPERTIES):
            r, _, _ = check(p, a.tier, repo=a.repo, evidence=not a.no_evidence)
            rc = rc or r
        return rc
    if a.explain:
        return explain(a.prop, a.explain)
    try:
        rc, _, _ = check(a.prop, a.tier, repo=a.repo, evidence=not a.no_evidence)
        if a.tier == "thorough" and not a.no_evidence:
            from . import selftest
            selftest.annotate_evidence(a.prop)
        return rc
    except Exception:
        traceback.print_exc()
        os.makedirs(os.path.join(EVIDENCE_DIR, "violations"), exist_ok=True)
        vp = os.path.join(EVIDENCE_DIR, "violations", "%s-tool-error.json" % a.prop)
        json.dump({"kind": "tool-error", "stage": "rules", "message": traceback.format_exc()}, open(vp, "w"), indent=1)
        print("VIOLATION property=%s replay=%s kind=tool-error" % (a.prop, vp))
        return 1
