"""Integer polynomials over opaque atoms (hashable python values), normal form."""


class Poly:
    __slots__ = ("m", "_h")

    def __init__(self, m=None):
        # m: dict monomial(tuple of atoms sorted by repr) -> int coeff
        self.m = {k: v for k, v in (m or {}).items() if v != 0}
        self._h = None

    @staticmethod
    def const(c):
        return Poly({(): int(c)}) if c else Poly()

    @staticmethod
    def atom(a):
        return Poly({(a,): 1})

    def is_const(self):
        return all(k == () for k in self.m)

    def const_value(self):
        return self.m.get((), 0) if self.is_const() else None

    def __add__(self, o):
        o = _p(o)
        r = dict(self.m)
        for k, v in o.m.items():
            r[k] = r.get(k, 0) + v
        return Poly(r)

    def __neg__(self):
        return Poly({k: -v for k, v in self.m.items()})

    def __sub__(self, o):
        return self + (-_p(o))

    def __mul__(self, o):
        o = _p(o)
        r = {}
        for k1, v1 in self.m.items():
            for k2, v2 in o.m.items():
                k = tuple(sorted(k1 + k2, key=_akey))
                r[k] = r.get(k, 0) + v1 * v2
        return Poly(r)

    def __eq__(self, o):
        return isinstance(o, Poly) and self.m == o.m

    def __hash__(self):
        if self._h is None:
            self._h = hash(frozenset(self.m.items()))
        return self._h

    def atoms(self):
        s = set()
        for k in self.m:
            s.update(k)
        return s

    def nonneg_coeffs(self):
        return all(v >= 0 for v in self.m.values())

    def subst(self, f):
        """f: atom -> Poly | None (None keeps the atom)."""
        r = Poly()
        for k, v in self.m.items():
            t = Poly.const(v)
            for a in k:
                x = f(a)
                t = t * (x if x is not None else Poly.atom(a))
            r = r + t
        return r

    def __repr__(self):
        if not self.m:
            return "0"
        parts = []
        for k, v in sorted(self.m.items(), key=lambda kv: (len(kv[0]), repr(kv[0]))):
            mon = "*".join(show_atom(a) for a in k)
            if not k:
                parts.append(str(v))
            elif v == 1:
                parts.append(mon)
            elif v == -1:
                parts.append("-" + mon)
            else:
                parts.append("%d*%s" % (v, mon))
        return " + ".join(parts).replace("+ -", "- ")


def _akey(a):
    return repr(a)


def _p(x):
    if isinstance(x, Poly):
        return x
    if isinstance(x, int):
        return Poly.const(x)
    raise TypeError(x)


def show_path(p):
    root, proj = p
    r = show_atom(root) if isinstance(root, tuple) else str(root)
    return r + "".join("." + str(x) for x in proj)


def show_atom(a):
    if isinstance(a, tuple) and a:
        k = a[0]
        if k == "init":
            v = a[2]
            return show_path(a[1]) + ("" if not v else "@%s" % (v,))
        if k in ("P", "L", "D", "V", "AV"):
            return "%s%s" % (k, "(%s)" % show_atom(a[1]) if isinstance(a[1], tuple) else a[1])
        if k == "param":
            return "arg%s" % a[1]
        if k == "CAP":
            return "CAP(%s)%s" % (show_path(a[1]), "" if not a[2] else "@%s" % (a[2],))
        if k in ("STRIDE", "LAYOUT", "ALIGN"):
            return "%s(%s)" % (k, show_path(a[1]))
        if k == "BASE":
            return "BASE(%s)%s" % (show_path(a[1]), "" if not a[2] else "@%s" % (a[2],))
        if k == "SIZEOF":
            return "size_of<%s>" % a[1]
        return "%s(%s)" % (k, ",".join(show_atom(x) for x in a[1:]))
    return str(a)
