"""Self-test corpus: every mutant (a realistic breaking edit that still compiles and passes the 44 tests) must make its rule fire
with the expected key; every benign edit (behaviour-preserving refactoring) must leave every check silent.
`./check selftest [--only name]`; thorough tier of a property records the outcome of its corpus entries in the evidence file."""
import os, sys, json, shutil, subprocess, tempfile, concurrent.futures, time
from .facts import VERIF
from . import facts as factsmod

factsmod_REPO0 = factsmod.REPO
CORPUS = os.path.join(VERIF, "selftest")
RESULT = os.path.join(VERIF, "selftest", "last_result.json")


def load_index():
    return json.load(open(os.path.join(CORPUS, "index.json")))


def scratch_copy(dst, repo=None):
    repo = repo or factsmod_REPO0
    os.makedirs(dst, exist_ok=True)
    subprocess.run(["rsync", "-a", "--exclude", "target", "--exclude", ".git", "--exclude", "benches", repo + "/", dst + "/"], check=True)
    # benches are referenced by Cargo.toml
    if os.path.isdir(os.path.join(repo, "benches")):
        subprocess.run(["rsync", "-a", os.path.join(repo, "benches"), dst + "/"], check=True)


def run_entry(kind, rec, verify_tests=False):
    from .runner import check, load_known
    t0 = time.time()
    tmp = tempfile.mkdtemp(prefix="avst-")
    out = {"name": rec["name"], "kind": kind, "props": rec["props"], "status": None, "fired": [], "wall_s": 0}
    try:
        wd = os.path.join(tmp, "repo")
        scratch_copy(wd)
        patch = rec.get("patch") or os.path.join(CORPUS, kind, rec["name"] + ".patch")
        p = subprocess.run(["patch", "-p1", "-s", "-i", patch], cwd=wd, capture_output=True, text=True)
        if p.returncode != 0:
            out["status"] = "skipped-does-not-apply"
            return out
        factsmod.REPO = wd
        known = load_known()
        keys = []
        for prop in rec["props"]:
            rc, findings, stats = check(prop, "quick", repo=wd, quiet=True, evidence=False, scratch=os.path.join(tmp, "s-" + prop))
            for f in findings:
                if (prop, f.key) in known:
                    continue
                keys.append("%s %s" % (prop, f.key))
            if rc and not findings:
                keys.append("%s tool-error" % prop)
        out["fired"] = sorted(set(keys))
        if kind in ("mutants", "seeded"):
            exp = rec.get("expect")
            hit = [k for k in keys if (exp is None or exp in k)]
            out["status"] = "fired" if hit else ("fired-other-key" if keys else "MISSED")
        else:
            out["status"] = "silent" if not keys else "FALSE-ALARM"
        if verify_tests:
            tgt = os.path.join(wd, "target")
            if os.path.isdir(os.path.join(factsmod_REPO0, "target")):
                subprocess.run(["cp", "-r", os.path.join(factsmod_REPO0, "target"), tgt])
            tp = subprocess.run(["cargo", "test", "--workspace", "--no-fail-fast", "--offline"], cwd=wd, capture_output=True, text=True,
                                env=dict(os.environ, CARGO_NET_OFFLINE="true"))
            ok = tp.returncode == 0
            passed = sum(int(l.split()[3]) for l in tp.stdout.split("\n") if l.startswith("test result:"))
            out["tests"] = {"ok": ok, "passed": passed}
        return out
    except Exception as e:
        out["status"] = "error: %r" % (e,)
        return out
    finally:
        out["wall_s"] = round(time.time() - t0, 1)
        shutil.rmtree(tmp, ignore_errors=True)


factsmod_REPO0 = factsmod.REPO


def main(only=None, verify_tests=False, workers=8):
    idx = load_index()
    jobs = []
    for kind in ("mutants", "benign"):
        for rec in idx[kind]:
            if only and only not in rec["name"]:
                continue
            jobs.append((kind, rec))
    results = []
    with concurrent.futures.ProcessPoolExecutor(max_workers=workers if not verify_tests else 4) as ex:
        futs = [ex.submit(run_entry, k, r, verify_tests) for k, r in jobs]
        for f in futs:
            r = f.result()
            results.append(r)
            print("%-8s %-40s %-18s %s %s" % (r["kind"], r["name"], r["status"], "tests=%s" % r["tests"] if "tests" in r else "", "; ".join(r["fired"])[:150]))
    bad = [r for r in results if r["status"] in ("MISSED", "FALSE-ALARM") or str(r["status"]).startswith("error") or ("tests" in r and r["kind"] == "mutants" and not r["tests"]["ok"])]
    json.dump(results, open(RESULT, "w"), indent=1)
    print("selftest: %d entries, %d problems" % (len(results), len(bad)))
    return 1 if bad else 0


def annotate_evidence(prop):
    """thorough tier: run the corpus entries of this property and record fired/silent in the evidence (never changes the exit status)"""
    try:
        idx = load_index()
        jobs = [(k, dict(r, props=[prop])) for k in ("mutants", "benign") for r in idx[k] if prop in r["props"]]
        res = []
        with concurrent.futures.ProcessPoolExecutor(max_workers=8) as ex:
            for r in ex.map(_run, jobs):
                res.append({"name": r["name"], "kind": r["kind"], "status": r["status"], "fired": r["fired"][:3]})
        # independently seeded breaking changes kept for this property: each must still be reported by this property's check
        import glob
        sjobs = []
        for d_ in sorted(glob.glob(os.path.join(VERIF, "seeded", prop + "-*"))):
            if os.path.exists(os.path.join(d_, "patch.diff")):
                sjobs.append(("seeded", {"name": os.path.basename(d_), "props": [prop], "patch": os.path.join(d_, "patch.diff")}))
        sres = []
        if sjobs:
            with concurrent.futures.ProcessPoolExecutor(max_workers=8) as ex:
                for r in ex.map(_run, sjobs):
                    sres.append({"name": r["name"], "status": r["status"], "fired": r["fired"][:3]})
        ev = os.path.join(VERIF, "evidence", prop + ".json")
        d = json.load(open(ev))
        d["coverage"]["seeded_changes"] = {"entries": len(sres), "reported": sum(1 for r in sres if r["status"] in ("fired", "fired-other-key")),
                                           "missed": [r["name"] for r in sres if r["status"] == "MISSED"],
                                           "skipped": [r["name"] for r in sres if str(r["status"]).startswith("skipped")], "results": sres}
        d["coverage"]["selftest"] = {"entries": len(res), "mutants_fired": sum(1 for r in res if r["status"] in ("fired", "fired-other-key")),
                                     "mutants_missed": [r["name"] for r in res if r["status"] == "MISSED"],
                                     "benign_silent": sum(1 for r in res if r["status"] == "silent"),
                                     "benign_false_alarm": [r["name"] for r in res if r["status"] == "FALSE-ALARM"],
                                     "skipped": [r["name"] for r in res if str(r["status"]).startswith("skipped")], "results": res}
        json.dump(d, open(ev, "w"), indent=1, default=str)
    except Exception as e:
        print("selftest annotation failed: %r" % (e,))


def _run(job):
    return run_entry(job[0], job[1])
