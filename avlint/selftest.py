"""self-test corpus runner (placeholder until the corpus is built)"""
def main(only=None):
    print("selftest corpus not built yet")
    return 0
def annotate_evidence(prop):
    pass
