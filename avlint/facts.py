"""Fact base loading / indexing / pretty printing (facts are written by tools/avfacts)."""
import json, os, subprocess, tempfile, shutil, sys, time

REPO = os.environ.get("AVLINT_REPO", "/repo")
VERIF = os.path.dirname(os.path.dirname(os.path.abspath(__file__)))
DRIVER = os.path.join(VERIF, "tools/avfacts/target/release/avfacts")

CONFIGS = {
    # name: (cargo args, extra rustflags)
    "default": ([], ""),
    "release-like": ([], "-C overflow-checks=off -C debug-assertions=off"),
    "no-alloc": (["--no-default-features"], ""),
    "release-like-no-alloc": (["--no-default-features"], "-C overflow-checks=off -C debug-assertions=off"),
}


def sysroot():
    return subprocess.check_output(["rustc", "+nightly", "--print", "sysroot"], text=True).strip()


_SYSROOT = None


def build_facts(config, scratch, repo=None):
    """Run cargo +nightly check on the repository with the avfacts driver; returns path of the fact file.
    Always uses a fresh target directory (cargo's freshness cache would skip the wrapper)."""
    global _SYSROOT
    repo = repo or REPO
    if _SYSROOT is None:
        _SYSROOT = sysroot()
    cargo_args, flags = CONFIGS[config]
    out = os.path.join(scratch, "facts-%s.json" % config)
    tgt = os.path.join(scratch, "tgt-%s" % config)
    if os.path.exists(out):
        os.unlink(out)
    env = dict(os.environ)
    env.update({
        "LD_LIBRARY_PATH": _SYSROOT + "/lib",
        "RUSTFLAGS": ("-Zmir-opt-level=0 -Awarnings " + flags).strip(),
        "RUSTC_WORKSPACE_WRAPPER": DRIVER,
        "AVFACTS_OUT": out,
        "AVFACTS_CRATE": "any_vec",
        "CARGO_TARGET_DIR": tgt,
        "CARGO_NET_OFFLINE": "true",
    })
    env.pop("RUSTC_WRAPPER", None)
    if not os.path.exists(DRIVER):
        raise ToolError("driver", "avfacts driver not built (run MANIFEST.setup_cmd)")
    p = subprocess.run(["cargo", "+nightly", "check", "--offline", "--lib"] + cargo_args,
                       cwd=repo, env=env, capture_output=True, text=True)
    shutil.rmtree(tgt, ignore_errors=True)
    if p.returncode != 0 or not os.path.exists(out):
        raise ToolError("facts:" + config, "cargo check failed for configuration %s:\n%s" % (config, p.stderr[-3000:]))
    return out


class ToolError(Exception):
    def __init__(self, stage, msg):
        super().__init__(msg)
        self.stage = stage
        self.msg = msg


REFERENCE = os.path.join(os.path.dirname(os.path.abspath(__file__)), "reference_items.json")


def _items(d):
    """module-placed items whose def path is an identity used by the rules: (kind, path)"""
    out = set()
    for a in d["adts"]:
        out.add(("adt", a["path"]))
    for t in d["traits"]:
        out.add(("trait", t["path"]))
    for a in d["aliases"]:
        out.add(("alias", a["path"]))
    for f in d["fns"]:
        if f.get("kind") == "Fn" and "{" not in f["path"] and "<" not in f["path"]:
            out.add(("fn", f["path"]))
    return out


def relocate(text):
    """Items are identified by their def path as of the reference tree. An item that moved to another module (same kind, same name, the reference
    path gone, the match unique on both sides) is given its reference path back, everywhere in the fact base: where an item lives is not behaviour.
    -> (text, {current path: reference path})"""
    import re
    if not os.path.exists(REFERENCE):
        return text, {}
    ref = {(k, p) for k, p in json.load(open(REFERENCE))["items"]}
    cur = _items(json.loads(text))
    unknown = [x for x in cur if x not in ref]
    missing = [x for x in ref if x not in cur]
    if not unknown or not missing:
        return text, {}
    ren = {}
    for k, p in unknown:
        tail = p.split("::")[-1]
        cands = [q for (k2, q) in missing if k2 == k and q.split("::")[-1] == tail]
        same = [q for (k2, q) in unknown if k2 == k and q.split("::")[-1] == tail]
        if len(cands) == 1 and len(same) == 1:
            ren[p] = cands[0]
    for old in sorted(ren, key=len, reverse=True):
        text = re.sub(r"(?<![A-Za-z0-9_:])" + re.escape(old) + r"(?![A-Za-z0-9_])", ren[old].replace("\\", "\\\\"), text)
    return text, ren


def rename_fields(d):
    """Fields are identified by their names as of the reference tree. A struct whose field was renamed (same number of fields; the new name is unknown to
    the reference, exactly one reference name is gone, and the field's type is unchanged) gets the reference name back in every place projection and
    aggregate of the fact base: what a private field is called is not behaviour. -> {adt: {current name: reference name}}"""
    if not os.path.exists(REFERENCE):
        return {}
    ref = json.load(open(REFERENCE)).get("fields", {})
    ren = {}
    for a in d["adts"]:
        rf = ref.get(a["path"])
        if not rf or len(a["variants"]) != 1:
            continue
        cur = [(fl["name"], fl["ty"].get("s", "")) for fl in a["variants"][0]["fields"]]
        if len(cur) != len(rf):
            continue
        rnames = [x[0] for x in rf]
        cnames = [x[0] for x in cur]
        new = [x for x in cur if x[0] not in rnames]
        gone = [x for x in rf if x[0] not in cnames]
        if not new or len(new) != len(gone):
            continue
        m = {}
        for (n, t) in new:
            c = [g for g in gone if g[1] == t and g[0] not in m.values()]
            if len(c) == 1 or (len(gone) == 1 and len(new) == 1):
                m[n] = (c[0][0] if c else gone[0][0])
        if len(m) == len(new):
            ren[a["path"]] = m
    if not ren:
        return {}
    for a in d["adts"]:
        m = ren.get(a["path"])
        if m:
            for fl in a["variants"][0]["fields"]:
                fl["name"] = m.get(fl["name"], fl["name"])

    def adt_of(of):
        return of.split("<", 1)[0] if isinstance(of, str) else None

    def fix_place(pl):
        if not isinstance(pl, dict):
            return
        for e in pl.get("proj", []) or []:
            if isinstance(e, dict) and "field" in e:
                m = ren.get(adt_of(e.get("of", "")))
                if m and e["field"] in m:
                    e["field"] = m[e["field"]]

    def walk(x):
        if isinstance(x, dict):
            if "proj" in x and "local" in x:
                fix_place(x)
            if x.get("k") == "agg" and x.get("adt") in ren and isinstance(x.get("fields"), list):
                x["fields"] = [ren[x["adt"]].get(n, n) for n in x["fields"]]
            for v in x.values():
                walk(v)
        elif isinstance(x, list):
            for v in x:
                walk(v)
    for f in d["fns"]:
        walk(f.get("blocks"))
        for dbg in f.get("debug", []) or []:
            walk(dbg)
    return ren


class Facts:
    def __init__(self, path, config="default"):
        self.config = config
        with open(path) as f:
            text = f.read()
        text, self.relocated = relocate(text)
        self.d = json.loads(text)
        self.renamed_fields = rename_fields(self.d)
        self.crate = self.d["crate"]
        self.fns = {}
        for f in self.d["fns"]:
            # closures and consts share paths with suffixes; keep first and list all
            self.fns.setdefault(f["path"], f)
        self.fn_list = self.d["fns"]
        self.adts = {a["path"]: a for a in self.d["adts"]}
        self.impls = self.d["impls"]
        self.traits = {t["path"]: t for t in self.d["traits"]}
        self.aliases = {a["path"]: a for a in self.d["aliases"]}
        self.api = self.d["api"]
        self.public_paths = self.d.get("public_paths", [])
        # impl lookup: (trait path, self adt path) -> impl
        self.impl_index = {}
        for im in self.impls:
            if im.get("trait"):
                st = im["self_ty"]
                key = (im["trait"], st.get("path") if st["k"] == "adt" else st["s"])
                self.impl_index.setdefault(key, []).append(im)

    def fn(self, path):
        return self.fns.get(path)

    def find_fns(self, pred):
        return [f for f in self.fn_list if pred(f)]

    def impls_of(self, trait):
        return [im for im in self.impls if im.get("trait") == trait]

    def short(self, path):
        return path


# ---------------------------------------------------------------- pretty printing (for --explain and development)

def pp_place(p):
    s = "_%d" % p["local"]
    for e in p["proj"]:
        if e == "deref":
            s = "(*%s)" % s
        elif isinstance(e, dict) and "field" in e:
            s = "%s.%s" % (s, e["field"])
        elif isinstance(e, dict) and "downcast" in e:
            s = "(%s as %s)" % (s, e["downcast"])
        elif isinstance(e, dict) and "index" in e:
            s = "%s[_%d]" % (s, e["index"])
        else:
            s = "%s.<%s>" % (s, e if isinstance(e, str) else list(e.keys())[0])
    return s


def pp_op(o):
    if "copy" in o:
        return pp_place(o["copy"])
    if "move" in o:
        return "move " + pp_place(o["move"])
    if "const" in o:
        c = o["const"]
        if "fn" in c:
            return "fn " + c["fn"]["path_args"]
        if "val" in c:
            return "const %s_%s" % (c["val"], c["ty"]["s"])
        return "const " + c.get("s", "?")
    return "?"


def pp_rv(rv):
    k = rv["k"]
    a = [pp_op(x) for x in rv.get("args", [])]
    if k == "use":
        return a[0]
    if k == "bin":
        return "%s(%s)" % (rv["op"], ", ".join(a))
    if k == "un":
        return "%s(%s)" % (rv["op"], a[0])
    if k == "cast":
        return "%s as %s [%s]" % (a[0], rv["ty"]["s"], rv["cast"])
    if k == "ref":
        return "&%s%s" % ("mut " if rv["mut"] else "", pp_place(rv["place"]))
    if k == "addr":
        return "&raw %s%s" % ("mut " if rv["mut"] else "const ", pp_place(rv["place"]))
    if k == "agg":
        if "adt" in rv:
            return "%s::%s{%s}" % (rv["adt"], rv["variant"], ", ".join("%s: %s" % (f, x) for f, x in zip(rv["fields"], a)))
        return "%s(%s)" % (rv.get("agg_kind"), ", ".join(a))
    if k == "discr":
        return "discriminant(%s)" % pp_place(rv["place"])
    return "%s %s" % (k, rv.get("s", ""))


def pp_callee(c):
    if "indirect" in c:
        return "(indirect %s)" % pp_op(c["indirect"])
    s = c["path_args"]
    if c.get("resolved"):
        s += "  ~> " + c["resolved"]
    return s


def pp_fn(f, out=sys.stdout):
    w = out.write
    w("fn %s   [%s:%d]\n" % (f["path"], f["span"]["file"], f["span"]["line"]))
    if "sig" in f:
        w("   sig: %s\n" % f["sig"]["s"])
    for d in f.get("debug", []):
        w("   debug %s => %s\n" % (d["name"], pp_place(d["place"])))
    for i, t in enumerate(f["locals"]):
        w("   let _%d: %s\n" % (i, t["s"]))
    for bi, b in enumerate(f["blocks"]):
        w(" bb%d%s:\n" % (bi, " (cleanup)" if b["cleanup"] else ""))
        for st in b["stmts"]:
            if "dst" in st:
                w("    %s = %s   // L%s\n" % (pp_place(st["dst"]), pp_rv(st["rv"]), st.get("line")))
            else:
                w("    intrinsic %s\n" % st.get("intrinsic"))
        t = b["term"]
        k = t["k"]
        if k == "call":
            w("    %s = %s(%s) -> %s unwind %s   // L%s\n" % (pp_place(t["dest"]), pp_callee(t["callee"]),
              ", ".join(pp_op(a) for a in t["args"]), t["targets"], t.get("unwind"), t.get("line")))
        elif k == "switch":
            w("    switchInt(%s) -> %s\n" % (pp_op(t["discr"]), list(zip(t["values"] + ["otherwise"], t["targets"]))))
        elif k == "assert":
            w("    assert(%s == %s, %s) -> %s\n" % (pp_op(t["cond"]), t["expected"], t["msg"], t["targets"]))
        elif k == "drop":
            w("    drop(%s) -> %s unwind %s\n" % (pp_place(t["place"]), t["targets"], t.get("unwind")))
        else:
            w("    %s %s\n" % (k, t.get("targets", "")))


if __name__ == "__main__" and "--write-reference" not in sys.argv:
    fx = Facts(sys.argv[1])
    pat = sys.argv[2] if len(sys.argv) > 2 else None
    for f in fx.fn_list:
        if pat is None or pat in f["path"]:
            pp_fn(f)
            print()


if __name__ == "__main__" and "--write-reference" in sys.argv:
    # python3 -m avlint.facts --write-reference : record the item paths of the current /repo tree as the reference identities
    items = set()
    for cfg in ("default", "no-alloc"):
        tmp = tempfile.mkdtemp(prefix="avref-")
        try:
            items |= _items(json.load(open(build_facts(cfg, tmp))))
        finally:
            shutil.rmtree(tmp, ignore_errors=True)
    fields = {}
    tmp = tempfile.mkdtemp(prefix="avref-")
    try:
        dd = json.load(open(build_facts("default", tmp)))
        for a in dd["adts"]:
            if len(a["variants"]) == 1:
                fields[a["path"]] = [[fl["name"], fl["ty"].get("s", "")] for fl in a["variants"][0]["fields"]]
    finally:
        shutil.rmtree(tmp, ignore_errors=True)
    json.dump({"note": "def paths of module-placed items on the reference tree (identities used by rule anchors and finding keys); field names of the structs",
               "items": sorted(items), "fields": fields}, open(REFERENCE, "w"), indent=0)
    print("reference items:", len(items), "structs with fields:", len(fields))
