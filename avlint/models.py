"""Semantics of calls that are not inlined: a fixed list of `core` primitives (trusted base), the abstract
backend interface (`Mem`, `MemBuilder`), user-code entry points (`AnyValue*` on generic values, user
iterators), allocator calls, and indirect calls through the vector's function pointers.
Every call is mapped to a value and to zero or more effects; anything else is logged as UNKNOWN."""
from .poly import Poly
from .interp import Tree, as_poly, is_int_ty, sub_of
from .types import ty_str

DIVERGE = object()


def h(v):
    """hashable rendition of a value"""
    if isinstance(v, Tree):
        return ("tree", v.path)
    if isinstance(v, list):
        return tuple(h(x) for x in v)
    return v


def canon_path(I, st, path):
    root, proj = path
    for i in range(len(proj), -1, -1):
        b = st.base.get((root, proj[:i]))
        if b is not None:
            return (b[0], b[1] + proj[i:])
    return path


def ref_path(v):
    if isinstance(v, tuple) and v and v[0] == "ref":
        return v[1]
    return None


def garg(I, inst, callee, i):
    ga = [a for a in callee.get("generic_args", []) if a.get("k") != "region"]
    if i < len(ga):
        return I.tcx.subst(ga[i], inst.subst)
    return {"k": "other", "s": "?"}


def pointee_ref(x):
    if isinstance(x, tuple) and x and x[0] in ("ref", "ptr", "slice"):
        return x
    return ("ref", (("D", h(x)), ()))


def leaf_or_tree(I, st, v):
    """value behind a reference argument"""
    p = ref_path(v)
    if p is None:
        return v
    lv = st.env.get(p)
    if lv is not None:
        return lv
    return I.load(st, p, None)


def site_of(node, nidx):
    return ("s", node.gid)


def apply(I, st, inst, node, nidx, callee, args, term, dty, line):
    no_target = not term.get("targets")
    if "indirect" in callee:
        return indirect(I, st, inst, node, nidx, callee, args, dty, line)
    path = callee["path"]
    name = callee["name"]
    trait = callee.get("trait")
    resolved = callee.get("resolved") or ""
    crate = callee.get("crate")
    E = lambda kind, **d: I.eff(node, nidx, kind, line=line, facts=st.facts, **d)
    site = site_of(node, nidx)

    # ---------------------------------------------------------------- divergence
    if path.startswith("core::panicking::") or name == "handle_alloc_error":
        E("PANIC", what=path)
        return DIVERGE
    if no_target:
        E("PANIC", what=path)
        return DIVERGE

    # ---------------------------------------------------------------- type-level constants
    if path == "any_value::Unknown::is":
        t = garg(I, inst, callee, 0)
        ts = ty_str(t)
        if I.tcx.is_unknown_marker(t):
            return ("bconst", 1, "typetest") if I.prune_type_tests else ("typetest", ts)
        if t.get("k") in ("param", "alias"):
            if ts in I.type_tests:
                return ("bconst", 1 if I.type_tests[ts] else 0, "typetest")
            return ("typetest", ts)
        return ("bconst", 0, "typetest") if I.prune_type_tests else ("typetest", ts)
    if path == "core::mem::size_of":
        return Poly.atom(("SIZEOF", ty_str(garg(I, inst, callee, 0))))
    if path == "core::mem::align_of":
        return Poly.atom(("ALIGNOF", ty_str(garg(I, inst, callee, 0))))
    if path == "core::mem::needs_drop":
        t = ty_str(garg(I, inst, callee, 0))
        if I.type_tests.get(t) is True or t == "any_value::Unknown":
            # in the type-erased arm the type IS the marker `Unknown` (a unit struct without drop glue): `needs_drop::<Unknown>()` is false there,
            # so a test of it says nothing about the elements (whose destructor is the run-time drop_fn)
            return ("bconst", 0)
        return ("needs_drop", t)
    if path == "core::any::TypeId::of":
        return ("TYPEID", ty_str(garg(I, inst, callee, 0)))
    if path == "core::alloc::Layout::new":
        return ("LAYOUTOF", ty_str(garg(I, inst, callee, 0)))

    # ---------------------------------------------------------------- Layout
    if path in ("core::alloc::Layout::size", "core::alloc::Layout::align"):
        v = leaf_or_tree(I, st, args[0])
        which = "size" if name == "size" else "align"
        if isinstance(v, tuple) and v:
            if v[0] == "LAYOUT":
                return Poly.atom(("STRIDE" if which == "size" else "ALIGN", v[1]))
            if v[0] == "LAYOUTOF":
                return Poly.atom(("SIZEOF" if which == "size" else "ALIGNOF", v[1]))
            if v[0] == "layout":
                return as_poly(v[1] if which == "size" else v[2])
        return Poly.atom(("l" + which, h(v)))
    if path in ("core::alloc::Layout::from_size_align_unchecked",):
        E("LAYOUT_NEW", size=as_poly(args[0]), align=as_poly(args[1]), checked=False)
        return ("layout", as_poly(args[0]), as_poly(args[1]), "unchecked")
    if path in ("core::alloc::Layout::from_size_align",):
        # the constructor validates (size <= isize::MAX rounded to align); how the Err is handled is visible at the unwrap / match
        E("LAYOUT_NEW", size=as_poly(args[0]), align=as_poly(args[1]), checked=True, at="constructor")
        return ("layout_res", as_poly(args[0]), as_poly(args[1]))
    if path in ("core::alloc::Layout::array",):
        return ("layout_res", Poly.atom(("SIZEOF", ty_str(garg(I, inst, callee, 0)))) * as_poly(args[0]), Poly.atom(("ALIGNOF", ty_str(garg(I, inst, callee, 0)))))

    # ---------------------------------------------------------------- TypeId equality
    if trait == "core::cmp::PartialEq" and name in ("eq", "ne"):
        a = leaf_or_tree(I, st, args[0])
        b = leaf_or_tree(I, st, args[1])
        a, b = h(a), h(b)
        if isinstance(a, tuple) and isinstance(b, tuple) and a and b and a[0] == "TYPEID" and b[0] == "TYPEID":
            r = None
            if a[1] == b[1]:
                r = 1
            else:
                for x, y in ((a, b), (b, a)):
                    if x[1] == "any_value::Unknown" and y[1] in I.type_tests:
                        r = 1 if I.type_tests[y[1]] else 0
            if r is not None:
                r = ("bconst", r, "typetest")
                return r if name == "eq" else ("bconst", 1 - r[1], "typetest")
        if isinstance(a, Poly) or isinstance(b, Poly):
            r = ("cmp", "Eq", as_poly(a), as_poly(b))
        else:
            x, y = sorted([a, b], key=repr)
            r = ("teq", x, y)
        return r if name == "eq" else ("not", r)

    # ---------------------------------------------------------------- pointer wrappers (identity on the pointee)
    if path in ("core::ptr::NonNull::<T>::as_ref", "core::ptr::NonNull::<T>::as_mut"):
        x = leaf_or_tree(I, st, args[0])
        return pointee_ref(x)
    if path in ("core::ptr::NonNull::<T>::as_ptr", "core::ptr::NonNull::<T>::cast"):
        v = args[0]
        if isinstance(v, Tree):
            v = I.load(st, v.path, None)
        v = pointee_ref(v)
        if name == "cast" and isinstance(v, tuple) and v and v[0] == "ptr":
            return ("ptr", v[1], v[2], ty_str(garg(I, inst, callee, 1)))
        return v
    if path in ("core::ptr::NonNull::<T>::new_unchecked",
                "core::mem::ManuallyDrop::<T>::new", "core::mem::MaybeUninit::<T>::assume_init",
                "core::mem::ManuallyDrop::<T>::into_inner", "core::mem::MaybeUninit::<T>::new"):
        v = args[0]
        if name in ("new_unchecked",):
            E("NONNULL_UNCHECKED", ptr=h(v))
        if path == "core::mem::ManuallyDrop::<T>::new":
            E("MD_NEW", what=h(v))       # the value's destructor is suppressed from here on (mem::forget is exactly this)
        return v
    if path == "core::ptr::NonNull::<T>::new":
        return ("nonnull_opt", h(args[0]))
    if trait == "core::convert::From" and ("NonNull" in resolved or ty_str(garg(I, inst, callee, 0)).startswith("core::ptr::NonNull")):
        return args[0]
    if trait in ("core::ops::Deref", "core::ops::DerefMut") and "ManuallyDrop" in resolved:
        return args[0]
    if trait == "core::iter::IntoIterator" and name == "into_iter":
        return args[0]
    if path in ("core::ptr::const_ptr::<impl *const T>::cast_mut", "core::ptr::mut_ptr::<impl *mut T>::cast_const",
                "core::ptr::const_ptr::<impl *const T>::cast_const", "core::ptr::mut_ptr::<impl *mut T>::cast_mut"):
        return args[0]      # same address, same pointee type: only the mutability of the raw pointer type changes
    if path in ("core::ptr::const_ptr::<impl *const T>::cast", "core::ptr::mut_ptr::<impl *mut T>::cast"):
        v = args[0]
        to = ty_str(garg(I, inst, callee, 1))
        if isinstance(v, tuple) and v and v[0] == "ptr":
            return ("ptr", v[1], v[2], to)
        return v      # an opaque pointer value stays itself (exactly what an `as` cast between pointer types does)
    if path in ("core::ptr::const_ptr::<impl *const T>::add", "core::ptr::mut_ptr::<impl *mut T>::add",
                "core::ptr::const_ptr::<impl *const T>::sub", "core::ptr::mut_ptr::<impl *mut T>::sub",
                "core::ptr::const_ptr::<impl *const T>::offset", "core::ptr::mut_ptr::<impl *mut T>::offset"):
        ety = ty_str(garg(I, inst, callee, 0))
        r = I.ptr_add(args[0], as_poly(args[1]), ety, sign=-1 if name == "sub" else 1)
        E("PTRADD", base=h(args[0]), n=as_poly(args[1]), ety=ety, result=r)
        return r
    if path in ("core::ptr::const_ptr::<impl *const T>::byte_add", "core::ptr::mut_ptr::<impl *mut T>::byte_add",
                "core::ptr::const_ptr::<impl *const T>::byte_sub", "core::ptr::mut_ptr::<impl *mut T>::byte_sub",
                "core::ptr::const_ptr::<impl *const T>::byte_offset", "core::ptr::mut_ptr::<impl *mut T>::byte_offset"):
        v = args[0]
        n = as_poly(args[1])
        if isinstance(v, tuple) and v and v[0] == "ptr":
            r = ("ptr", v[1], (v[2] - n) if name == "byte_sub" else (v[2] + n), v[3])      # the offset is kept in bytes: same pointee type, n bytes further
            E("PTRADD", base=h(v), n=n, ety="u8", result=r)
            return r
    if path in ("core::mem::MaybeUninit::<T>::as_ptr", "core::mem::MaybeUninit::<T>::as_mut_ptr"):
        p = ref_path(args[0])
        ety = ty_str(garg(I, inst, callee, 0))
        if p is not None:
            return ("ptr", ("FIELD", canon_path(I, st, p)), Poly(), ety)
        return ("ptr", ("PBASE", h(args[0])), Poly(), ety)
    if path == "core::mem::MaybeUninit::<T>::uninit":
        return ("uninit",)

    # ---------------------------------------------------------------- slices
    if path in ("core::slice::from_raw_parts", "core::slice::from_raw_parts_mut", "core::ptr::slice_from_raw_parts_mut",
                "core::ptr::slice_from_raw_parts"):
        ety = ty_str(garg(I, inst, callee, 0))
        r = ("slice", h(args[0]), as_poly(args[1]), ety)
        E("VIEW", ptr=h(args[0]), n=as_poly(args[1]), ety=ety, prim=name)
        return r
    if path in ("core::slice::<impl [T]>::as_ptr", "core::slice::<impl [T]>::as_mut_ptr"):
        v = args[0]
        if isinstance(v, tuple) and v and v[0] == "slice":
            return v[1]
        return ("ptr", ("PBASE", h(v)), Poly(), ty_str(garg(I, inst, callee, 0)))
    if path == "core::slice::<impl [T]>::len":
        v = args[0]
        if isinstance(v, tuple) and v and v[0] == "slice":
            return v[2]
        return Poly.atom(("slicelen", h(v)))
    if path.startswith("core::slice::<impl [T]>::"):
        E("SLICEOP", op=name, slice=h(args[0]), args=h(args[1:]))
        return I.wrap(("sliceop", name, h(args)), dty)

    # ---------------------------------------------------------------- memory primitives
    if path in ("core::ptr::copy", "core::ptr::copy_nonoverlapping", "core::intrinsics::copy", "core::intrinsics::copy_nonoverlapping"):
        ety = ty_str(garg(I, inst, callee, 0))
        E("COPY", prim=name, src=h(args[0]), dst=h(args[1]), n=as_poly(args[2]), ety=ety)
        return ("unit", "()")
    if path in ("core::ptr::const_ptr::<impl *const T>::copy_to", "core::ptr::mut_ptr::<impl *mut T>::copy_to",
                "core::ptr::const_ptr::<impl *const T>::copy_to_nonoverlapping", "core::ptr::mut_ptr::<impl *mut T>::copy_to_nonoverlapping"):
        ety = ty_str(garg(I, inst, callee, 0))
        E("COPY", prim="copy_nonoverlapping" if name.endswith("nonoverlapping") else "copy", src=h(args[0]), dst=h(args[1]), n=as_poly(args[2]), ety=ety)
        return ("unit", "()")
    if path in ("core::ptr::mut_ptr::<impl *mut T>::copy_from", "core::ptr::mut_ptr::<impl *mut T>::copy_from_nonoverlapping"):
        ety = ty_str(garg(I, inst, callee, 0))
        E("COPY", prim="copy_nonoverlapping" if name.endswith("nonoverlapping") else "copy", src=h(args[1]), dst=h(args[0]), n=as_poly(args[2]), ety=ety)
        return ("unit", "()")
    if path == "core::ptr::eq":
        return ("pcmp", "Eq", h(args[0]), h(args[1]))
    if path == "core::ptr::swap_nonoverlapping":
        ety = ty_str(garg(I, inst, callee, 0))
        E("SWAP", prim=name, a=h(args[0]), b=h(args[1]), n=as_poly(args[2]), ety=ety)
        return ("unit", "()")
    if path == "core::mem::swap":
        E("SWAP", prim="mem::swap", a=h(args[0]), b=h(args[1]), n=Poly.const(1), ety=ty_str(garg(I, inst, callee, 0)))
        return ("unit", "()")
    if path == "core::ptr::drop_in_place":
        ety = ty_str(garg(I, inst, callee, 0))
        v = args[0]
        if isinstance(v, tuple) and v and v[0] == "slice":
            E("DESTROY", prim="drop_in_place", ptr=v[1], n=v[2], ety=v[3], user=True)
        else:
            E("DESTROY", prim="drop_in_place", ptr=h(v), n=Poly.const(1), ety=ety, user=True)
        return ("unit", "()")
    if path in ("core::ptr::mut_ptr::<impl *mut T>::write", "core::ptr::write"):
        E("WRITE", dst=h(args[0]), value=h(args[1]), ety=ty_str(garg(I, inst, callee, 0)))
        return ("unit", "()")
    if path in ("core::ptr::read", "core::ptr::const_ptr::<impl *const T>::read", "core::ptr::mut_ptr::<impl *mut T>::read"):
        p = ref_path(args[0])
        E("READ", src=h(args[0]))
        if p is not None:
            lv = st.env.get(p)
            if lv is not None:
                return lv
            if is_int_ty(dty) or dty.get("k") in ("ptr", "ref", "bool", "fnptr"):
                return I.load(st, p, dty)
            return Tree(p, dty)
        return I.wrap(("read", h(args[0])), dty)
    if path in ("core::mem::replace", "core::mem::take"):
        p_ = ref_path(args[0])
        if p_ is not None:
            old = I.load(st, p_, dty)
            newv = args[1] if len(args) > 1 else I.wrap(("default", ty_str(dty)), dty)
            if name == "take" and is_int_ty(dty):
                newv = Poly()
            if isinstance(newv, Tree):
                I.copy_tree(st, newv.path, p_)
            else:
                I.store(st, p_, newv)
                I.note_store(st, node, nidx, I.canon(st, p_) if p_[0][0] == "L" else p_, dty, newv, line)
            return old
    if path == "core::mem::forget":
        a = args[0]
        E("FORGET", what=h(a))
        return ("unit", "()")

    # ---------------------------------------------------------------- integers / options
    if path == "core::cmp::max" or path == "core::cmp::min" or (trait == "core::cmp::Ord" and name in ("max", "min") and len(args) == 2
                                                                and all(isinstance(x, Poly) for x in args)):
        a, b = sorted([as_poly(args[0]), as_poly(args[1])], key=repr)
        if a == b:
            return a
        # decided by the facts of the case under analysis
        from .interp import implies_ge0
        if st.facts:
            if implies_ge0(st.facts, a - b):
                return a if name == "max" else b
            if implies_ge0(st.facts, b - a):
                return b if name == "max" else a
        return Poly.atom((name, a, b))
    if path.startswith("core::num::<impl usize>::checked_"):
        op = {"checked_add": "Add", "checked_sub": "Sub", "checked_mul": "Mul"}.get(name)
        if op:
            E("ARITH", op=op, a=as_poly(args[0]), b=as_poly(args[1]), checked=True, how=name)
            return ("checked", op, as_poly(args[0]), as_poly(args[1]))
        if name == "checked_div":
            return ("checked", "Div", as_poly(args[0]), as_poly(args[1]))
    if path.startswith("core::num::<impl usize>::saturating_"):
        op = {"saturating_add": "Add", "saturating_sub": "Sub", "saturating_mul": "Mul"}.get(name)
        a_, b_ = as_poly(args[0]), as_poly(args[1])
        from .interp import implies_ge0
        if name == "saturating_sub" and implies_ge0(st.facts, a_ - b_):
            # the subtrahend is known not to exceed the minuend: nothing saturates, the result is the plain difference
            E("ARITH", op=op, a=a_, b=b_, checked=True, how="checked_sub")
            return a_ - b_
        E("ARITH", op=op, a=a_, b=b_, checked=True, how=name)
        if name == "saturating_add":
            # value domain: the sum (as for `a + b`, whose overflow is R-ARITH's business: the ARITH effect above says that this one clamps)
            return a_ + b_
        if name in ("saturating_mul",):
            a_, b_ = sorted([a_, b_], key=repr)          # commutative: one spelling
        return Poly.atom((name, a_, b_))
    if path.startswith("core::num::<impl usize>::wrapping_"):
        op = {"wrapping_add": "Add", "wrapping_sub": "Sub", "wrapping_mul": "Mul"}.get(name)
        E("ARITH", op=op, a=as_poly(args[0]), b=as_poly(args[1]), checked=False, how=name)
        return I.arith(op, args[0], args[1])
    if path in ("core::option::Option::<T>::unwrap", "core::option::Option::<T>::expect",
                "core::result::Result::<T, E>::unwrap", "core::result::Result::<T, E>::expect",
                "core::option::Option::<T>::unwrap_or_else"):
        v = args[0]
        if isinstance(v, Tree):
            sub = (v.path[0], v.path[1] + ("as:Some", "0"))
            d = st.env.get((v.path[0], v.path[1] + ("$discr",)))
            E("UNWRAP", of=("tree", v.path))
            return Tree(sub, dty)
        if isinstance(v, tuple) and v:
            if v[0] == "some":
                return v[1]
            if v[0] == "checked":
                E("CHECKED_UNWRAP", op=v[1], a=v[2], b=v[3])
                return I.arith(v[1], v[2], v[3])
            if v[0] == "nonnull_opt":
                E("NULLCHECK", ptr=v[1], how=name)
                return v[1]
            if v[0] == "optj":
                # unwrap / expect of a guarded Option: past this point it was Some, so what held on the Some side holds
                side = I.optj.get((v[1], v[2]))
                if side:
                    st.facts = st.facts | frozenset(side[0])
                    for f in side[0]:
                        # a checked operation whose None is turned into this panic: the checked-and-unwrapped protocol
                        if f[0] == "eq0":
                            for a in f[1].atoms():
                                if isinstance(a, tuple) and a[0] == "discr" and isinstance(a[1], tuple) and a[1][:1] == ("checked",) and f[1] == Poly.atom(a) - Poly.const(1):
                                    E("CHECKED_UNWRAP", op=a[1][1], a=a[1][2], b=a[1][3])
                E("UNWRAP", of=("optj", v[1], v[2]))
                return v[3]
            if v[0] == "layout_res":
                E("LAYOUT_NEW", size=v[1], align=v[2], checked=True)
                return ("layout", v[1], v[2], "checked")
        E("UNWRAP", of=h(v))
        return I.wrap(("unwrap", h(v)), dty)
    if path == "core::bool::<impl bool>::then_some":
        # cond.then_some(v): Some(v) exactly when cond holds (a guarded Option, like the join of Some(v) with None)
        from .interp import bool_facts
        key = ("then_some",)
        I.optj[(node.gid, key)] = (frozenset(bool_facts(args[0], True)), frozenset(bool_facts(args[0], False)))
        return ("optj", node.gid, key, h(args[1]))
    if path == "core::option::Option::<T>::unwrap_or":
        v = args[0]
        if isinstance(v, tuple) and v and v[0] == "some":
            return v[1]
        if isinstance(v, tuple) and v and v[0] == "none":
            return args[1]
        if isinstance(v, tuple) and v and v[0] == "checked" and v[1] in ("Mul", "Add") and as_poly(args[1]) == Poly.const(2 ** 64 - 1):
            # checked_mul(..).unwrap_or(usize::MAX) is saturating_mul
            nm = "saturating_mul" if v[1] == "Mul" else "saturating_add"
            x, y = v[2], v[3]
            if nm == "saturating_add":
                return as_poly(x) + as_poly(y)       # value domain: the sum (as the saturating_add method itself)
            x, y = sorted([as_poly(x), as_poly(y)], key=repr)          # commutative: one spelling
            return Poly.atom((nm, x, y))
        if isinstance(v, tuple) and v and v[0] == "checked" and v[1] == "Div":
            # a / b when b != 0, the fallback otherwise
            from .interp import implies
            if implies(st.facts, ("ne0", v[3])):
                return I.arith("Div", v[2], v[3])
            if implies(st.facts, ("eq0", v[3])):
                return args[1]
            return I.wrap(("div_or", v[2], v[3], h(args[1])), dty)
        return I.wrap(("optop", name, h(args)), dty)
    if path in ("core::ops::Bound::<&T>::cloned", "core::ops::Bound::<&T>::copied"):
        return ("bcloned", h(args[0]))      # the same bound by value: same variant, payload dereferenced
    if path in ("core::option::Option::<T>::map_or", "core::option::Option::<T>::is_some", "core::option::Option::<T>::is_none",
                "core::option::Option::<T>::map", "core::option::Option::<T>::ok_or", "core::option::Option::<T>::is_some_and"):
        return I.wrap(("optop", name, h(args)), dty)

    # ---------------------------------------------------------------- iterators
    if trait == "core::iter::Iterator" and name == "next" or trait == "core::iter::DoubleEndedIterator" and name == "next_back":
        p = ref_path(args[0])
        sty = callee.get("self_ty", {})
        sts = ty_str(I.tcx.subst(sty, inst.subst)) if sty else "?"
        if sts.startswith("core::ops::Range<") or sts.startswith("core::iter::Rev<core::ops::Range<"):
            direction = "asc" if sts.startswith("core::ops::Range<") else "desc"
            if name == "next_back":
                direction = "desc" if direction == "asc" else "asc"
            rng = st.env.get(p) if p is not None else None
            if isinstance(rng, tuple) and rng and rng[0] == "iteradapt" and rng[1] == "rev" and rng[2]:
                rng = rng[2][0]
            # the abstract range value is kept (the yielded index is an opaque atom; iteration itself is not modelled)
            E("RANGE_NEXT", direction=direction, range=h(rng), path=p)
            return ("rangenext", site, direction, h(rng))
        cur = st.env.get(p) if p is not None else None
        if isinstance(cur, tuple) and cur[:2] == ("iteradapt", "take") and len(cur[2]) == 2 and name == "next":
            # `it.by_ref().take(n)`: at most n items are pulled from the underlying (user) iterator; the adaptor value itself is kept
            inner = cur[2][0]
            while isinstance(inner, tuple) and inner[:1] == ("iteradapt",) and inner[1] in ("by_ref",) and inner[2]:
                inner = inner[2][0]
            ip = ref_path(inner)
            E("USER", what="iter-" + name, target=canon_path(I, st, ip) if ip else h(inner), self_ty=sts, forwards=name, bound=as_poly(cur[2][1]))
            if ip is not None:
                I.havoc(st, ip, site)
            return ("usernext", site)
        E("USER", what="iter-" + name, target=canon_path(I, st, p) if p else h(args[0]), self_ty=sts, forwards=name)
        if p is not None:
            I.havoc(st, p, site)
        return ("usernext", site)
    if trait == "core::iter::ExactSizeIterator" and name == "len" or trait == "core::iter::Iterator" and name == "size_hint":
        p = ref_path(args[0])
        cp = canon_path(I, st, p) if p else h(args[0])
        sty = callee.get("self_ty", {})
        E("USER", what="iter-" + name, target=cp, self_ty=ty_str(I.tcx.subst(sty, inst.subst)) if sty else "?", forwards=name)
        # user code: two calls need not return the same value, so every call site yields its own value
        return I.wrap(("user" + name, cp, I.ver_of(st, p) if p else 0, site), dty)
    if trait == "core::iter::Iterator" and name in ("map", "rev", "take", "by_ref", "enumerate"):
        return ("iteradapt", name, h(args))
    if trait in ("core::iter::Iterator", "core::iter::DoubleEndedIterator") and name in ("nth", "nth_back", "count", "last", "fold", "rfold", "try_fold", "try_rfold",
                                                                                          "advance_by", "advance_back_by", "for_each"):
        # another consuming method of an abstract / user iterator: user code that moves the iterator (a wrapper forwarding it forwards `name`)
        p = ref_path(args[0])
        sty = callee.get("self_ty", {})
        E("USER", what="iter-" + name, target=canon_path(I, st, p) if p else h(args[0]), self_ty=ty_str(I.tcx.subst(sty, inst.subst)) if sty else "?", forwards=name)
        if p is not None:
            I.havoc(st, p, site)
        return I.wrap(("user" + name, site), dty)

    # ---------------------------------------------------------------- user-replaceable core traits
    if trait == "core::clone::Clone" and name == "clone":
        p = ref_path(args[0])
        E("USER", what="clone", target=canon_path(I, st, p) if p else h(args[0]))
        return ("cloneof", canon_path(I, st, p) if p else h(args[0]))
    if trait == "core::default::Default":
        return ("default", ty_str(dty))
    if trait == "core::ops::RangeBounds":
        p = ref_path(args[0])
        return ("bound", name, canon_path(I, st, p) if p else h(args[0]))

    # ---------------------------------------------------------------- abstract backend interface
    if trait == "mem::Mem":
        p = ref_path(args[0])
        mp = canon_path(I, st, p) if p else (("D", h(args[0])), ())
        if name == "size":
            return Poly.atom(("CAP", mp, I.ver_of(st, p) if p else 0))
        if name == "element_layout":
            return ("LAYOUT", mp)
        if name in ("as_ptr", "as_mut_ptr"):
            r = ("ptr", ("BASE", mp, I.ver_of(st, p) if p else 0), Poly(), "u8")
            E("PTR", mem=mp, result=r, how=name)
            return r
        if name == "expand":
            E("RESERVE", how="expand", mem=mp, n=as_poly(args[1]), cap=Poly.atom(("CAP", mp, I.ver_of(st, p) if p else 0)))
            if p is not None:
                I.havoc(st, p, site)
            return ("unit", "()")
    if trait == "mem::MemResizable":
        p = ref_path(args[0])
        mp = canon_path(I, st, p) if p else (("D", h(args[0])), ())
        if name in ("expand_exact", "resize"):
            E("RESERVE", how=name, mem=mp, n=as_poly(args[1]), cap=Poly.atom(("CAP", mp, I.ver_of(st, p) if p else 0)))
            if p is not None:
                I.havoc(st, p, site)
            return ("unit", "()")
    if trait in ("mem::MemBuilder", "mem::MemBuilderSizeable") and name in ("build", "build_with_size"):
        p = ref_path(args[0])
        lay = h(leaf_or_tree(I, st, args[1]) if ref_path(args[1]) else args[1])
        E("BUILD", how=name, builder=canon_path(I, st, p) if p else h(args[0]), layout=lay,
          cap=as_poly(args[2]) if len(args) > 2 else None)
        if p is not None:
            I.havoc(st, p, site)
        return ("MEM", site, lay)
    if trait == "mem::MemRawParts":
        if name == "into_raw_parts":
            a = args[0]
            src = a.path if isinstance(a, Tree) else h(a)
            E("MEM_INTO_PARTS", mem=src)
            return ("memparts", src)
        if name == "from_raw_parts":
            E("MEM_FROM_PARTS", handle=h(args[0]), layout=h(args[1]), size=h(args[2]))
            return ("MEMFROM", h(args[0]), h(args[1]), h(args[2]))

    # ---------------------------------------------------------------- vector pointer handles (generic P)
    if trait == "any_vec_ptr::IAnyVecRawPtr" and name in ("any_vec_raw", "any_vec_raw_mut"):
        pv = leaf_or_tree(I, st, args[0])
        return ("ref", (("V", h(pv)), ()))
    if trait == "any_vec_ptr::IAnyVecPtr" and name in ("any_vec", "any_vec_mut"):
        pv = leaf_or_tree(I, st, args[0])
        return ("ref", (("AV", h(pv)), ()))
    if trait == "ops::temp::Operation":
        p = ref_path(args[0])
        cp = canon_path(I, st, p) if p else h(args[0])
        if name == "any_vec_ptr":
            return ("opptr", cp)
        if name == "bytes":
            return ("ptr", ("OPBYTES", cp), Poly(), "u8")
        if name == "consume":
            E("CONSUME", op=cp)
            return ("unit", "()")
    if trait == "ops::iter::Iterable":
        p = ref_path(args[0])
        if p is not None:
            return ("ref", (p[0], p[1] + ("$iter",)))
    if trait == "iter::IteratorItem":
        return args[0]
    if trait == "clone_type::CloneType":
        if name == "new":
            return ("clonetype_new", h(args[0]))
        if name == "get":
            a = h(args[0])
            if isinstance(a, tuple) and a and a[0] == "clonetype_new":
                return a[1]
            return ("clonetype_get", a)

    # ---------------------------------------------------------------- AnyValue* on generic (user) values
    if trait and trait.startswith("any_value::AnyValue"):
        a0 = args[0]
        p = ref_path(a0)
        if p is not None:
            lv = st.env.get(p)
            if lv is not None and isinstance(lv, tuple) and lv and lv[0] in ("fld", "usernext", "call", "unwrap"):
                vp = h(lv)
            else:
                vp = canon_path(I, st, p)
        elif isinstance(a0, Tree):
            vp = canon_path(I, st, a0.path)
        else:
            vp = h(a0)
        sty = callee.get("self_ty", {})
        sts = ty_str(I.tcx.subst(sty, inst.subst)) if sty else "?"
        if name == "value_typeid":
            E("USER", what="value_typeid", target=vp, self_ty=sts)
            return ("VTYPEID", vp)
        if name == "size":
            E("USER", what="size", target=vp, self_ty=sts)
            return Poly.atom(("VSIZE", vp))
        if name in ("as_bytes_ptr", "as_bytes_mut_ptr"):
            E("USER", what=name, target=vp, self_ty=sts)
            return ("ptr", ("VBYTES", vp), Poly(), "u8")
        if name in ("as_bytes", "as_bytes_mut"):
            E("USER", what=name, target=vp, self_ty=sts)
            return ("slice", ("ptr", ("VBYTES", vp), Poly(), "u8"), Poly.atom(("VSIZE", vp)), "u8")
        if name == "move_into":
            known = ty_str(garg(I, inst, callee, 1))
            E("MOVE_INTO", value=vp, out=h(args[1]), size=as_poly(args[2]), known=known, self_ty=sts, user=True)
            return ("unit", "()")
        if name == "clone_into":
            E("CLONE_INTO", value=vp, out=h(args[1]), self_ty=sts, user=True)
            return ("unit", "()")
        if name in ("downcast_unchecked", "downcast_ref_unchecked", "downcast_mut_unchecked"):
            to = ty_str(garg(I, inst, callee, 1))
            E("UNCHECKED_CAST", value=vp, to=to, how=name, self_ty=sts)
            return I.wrap(("castof", vp, to), dty)
        if name in ("swap_unchecked",):
            E("SWAP_UNCHECKED", a=vp, b=h(args[1]))
            return ("unit", "()")
        if name in ("lazy_clone",):
            return ("lazyclone", vp)
        E("USER", what=name, target=vp, self_ty=sts)
        return I.wrap(("anyvalue", name, vp), dty)

    # ---------------------------------------------------------------- allocator
    if crate == "alloc" or ".alloc::" in path or "::alloc::alloc::" in path:
        if name in ("alloc", "alloc_zeroed"):
            E("ALLOC", layout=h(args[0]))
            return ("ptr", ("ALLOC", site), Poly(), "u8")
        if name == "realloc":
            E("REALLOC", ptr=h(args[0]), layout=h(args[1]), new_size=as_poly(args[2]))
            return ("ptr", ("ALLOC", site), Poly(), "u8")
        if name == "dealloc":
            E("DEALLOC", ptr=h(args[0]), layout=h(args[1]))
            return ("unit", "()")
        E("ALLOC_OTHER", what=path)
        return I.wrap(("call", path, site), dty)

    if path.startswith("core::fmt"):
        return ("fmt",)

    # ---------------------------------------------------------------- unresolved local-crate trait method on generic Self
    E("UNKNOWN", what=callee.get("path_args", path), trait=trait, args=h(args))
    # conservatively: anything passed by &mut is havocked
    for a, op in zip(args, term["args"]):
        p = ref_path(a)
        if p is not None and p[0][0] != "L":
            pass
    return I.wrap(("call", path, tuple(h(a) for a in args), site), dty)


def _typestate_of(I, st, ptr):
    """for a pointer into the storage of a vector object: (owner path, {field: current value of the owner's type_id / drop_fn}); an unwritten field of a
    parameter object reads as ("init", path, 0)"""
    from .interp import sub_of
    if not (isinstance(ptr, tuple) and ptr and ptr[0] == "ptr" and isinstance(ptr[1], tuple) and ptr[1][:1] == ("BASE",)):
        return None
    mp = ptr[1][1]
    if not (isinstance(mp, tuple) and len(mp) == 2 and mp[1] and mp[1][-1] == "mem"):
        return None
    owner = (mp[0], tuple(mp[1][:-1]))
    out = {}
    for F in ("type_id", "drop_fn"):
        pth = (owner[0], owner[1] + (F,))
        v = I.load(st, pth, None)
        out[F] = h(v) if v is not None else None
    return (owner, out)


def indirect(I, st, inst, node, nidx, callee, args, dty, line):
    f = callee["indirect"]
    fv = I.eval_operand(st, inst, f)
    fty = None
    if "copy" in f or "move" in f:
        _, fty = I.eval_place(st, inst, f.get("copy") or f.get("move"))
    E = lambda kind, **d: I.eff(node, nidx, kind, line=line, facts=st.facts, **d)
    n = len(args)
    if n == 2:
        E("DESTROY", prim="drop_fn", fn=h(fv), ptr=h(args[0]), n=as_poly(args[1]), ety=None, user=True)
    elif n == 3:
        E("CLONE", prim="clone_fn", fn=h(fv), src=h(args[0]), dst=h(args[1]), n=as_poly(args[2]), user=True,
          dst_ts=_typestate_of(I, st, args[1]), src_ts=_typestate_of(I, st, args[0]))
    else:
        E("UNKNOWN", what="indirect call", fn=h(fv), args=h(args))
    return ("unit", "()")
