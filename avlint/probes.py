"""Compile-verdict matrices (P15 trait probes, P16 borrow probes, P19 no-alloc probes): the compiler is the oracle.
One generated library crate per matrix (path-depending on the repository), one `cargo check`; every primary error span is
mapped back to its probe function.  Must-not-compile probes have a compiling twin that differs only by the offending line."""
import os, json, subprocess, shutil, itertools
from .core import RuleResult
from . import facts as factsmod

BORROW_CODES = {"E0382", "E0499", "E0502", "E0503", "E0505", "E0506", "E0515", "E0597", "E0716", "E0521", "E0713"}
TRAIT_CODES = {"E0277", "E0599", "E0282", "E0283"}


class Crate:
    def __init__(self, name, prelude):
        self.name = name
        self.lines = prelude.rstrip("\n").split("\n")
        self.probes = {}      # id -> dict(first, last, expect_fail, codes, key, desc)

    def add(self, pid, code, expect_fail, key, desc, codes):
        first = len(self.lines) + 1
        self.lines += code.rstrip("\n").split("\n")
        last = len(self.lines)
        self.probes[pid] = dict(first=first, last=last, expect_fail=expect_fail, key=key, desc=desc, codes=codes, code=code)

    def source(self):
        return "\n".join(self.lines) + "\n"


def compile_crate(crate, scratch, repo, default_features=True):
    d = os.path.join(scratch, "probe-" + crate.name)
    shutil.rmtree(d, ignore_errors=True)
    os.makedirs(os.path.join(d, "src"))
    with open(os.path.join(d, "Cargo.toml"), "w") as f:
        f.write('[package]\nname = "%s"\nversion = "0.0.0"\nedition = "2021"\n\n[workspace]\n\n[dependencies]\nany_vec = { path = "%s"%s }\n'
                % (crate.name, repo, "" if default_features else ", default-features = false"))
    with open(os.path.join(d, "src", "lib.rs"), "w") as f:
        f.write(crate.source())
    env = dict(os.environ)
    env["CARGO_TARGET_DIR"] = os.path.join(d, "target")
    env["CARGO_NET_OFFLINE"] = "true"
    env.pop("RUSTC_WORKSPACE_WRAPPER", None)
    env.pop("RUSTFLAGS", None)
    p = subprocess.run(["cargo", "+nightly", "check", "--offline", "--lib", "--message-format=json", "-q"], cwd=d, env=env, capture_output=True, text=True)
    errors = {}      # probe id -> set(codes)
    other = []
    bylines = []
    for pid, pr in crate.probes.items():
        bylines.append((pr["first"], pr["last"], pid))
    bylines.sort()
    saw_any = False
    dep_failed = False
    for line in p.stdout.split("\n"):
        if not line.startswith("{"):
            continue
        try:
            m = json.loads(line)
        except Exception:
            continue
        if m.get("reason") == "compiler-artifact":
            saw_any = True
        if m.get("reason") != "compiler-message":
            continue
        msg = m["message"]
        if msg.get("level") != "error":
            continue
        if m.get("target", {}).get("name") != crate.name:
            dep_failed = True
            other.append(msg.get("message"))
            continue
        code = (msg.get("code") or {}).get("code")
        spans = [s for s in msg.get("spans", []) if s.get("is_primary")] or msg.get("spans", [])
        hit = None
        for s in spans:
            ln = s["line_start"]
            for a, b, pid in bylines:
                if a <= ln <= b:
                    hit = pid
        if hit is None:
            if code is None and "aborting" in msg.get("message", ""):
                continue
            other.append("%s %s" % (code, msg.get("message")))
            continue
        errors.setdefault(hit, set()).add(code or "E????")
    shutil.rmtree(os.path.join(d, "target"), ignore_errors=True)
    if dep_failed or (p.returncode != 0 and not errors and not other):
        raise factsmod.ToolError("probes:" + crate.name, "probe crate could not be checked: %s\n%s" % (other[:3], p.stderr[-2000:]))
    return errors, other


# ------------------------------------------------------------------------------------------------ P15

P15_PRELUDE = r'''
#![allow(unused, dead_code, invalid_value, clippy::all)]
use any_vec::*;
use any_vec::traits::*;
use any_vec::mem::*;
use any_vec::any_value::*;
use any_vec::element::*;
use any_vec::ops;
use std::marker::PhantomData;
use std::cell::Cell;
use std::rc::Rc;
use std::alloc::Layout;

fn assert_send<T: Send + ?Sized>() {}
fn assert_sync<T: Sync + ?Sized>() {}
fn assert_clone<T: Clone>() {}

type NotSend = PhantomData<std::sync::MutexGuard<'static, ()>>;   // Sync, !Send
type NotSync = PhantomData<Cell<()>>;                             // Send, !Sync

pub struct SyncOnly(NotSend);      // element class: Sync only
pub struct SendOnlyNoClone(Cell<u32>);

macro_rules! user_backend {
    ($b:ident, $m:ident, $bmark:ty, $mmark:ty) => {
        #[derive(Clone, Default)] pub struct $b($bmark);
        pub struct $m(Layout, $mmark);
        impl MemBuilder for $b { type Mem = $m; fn build(&mut self, l: Layout) -> $m { $m(l, Default::default()) } }
        impl Mem for $m {
            fn as_ptr(&self) -> *const u8 { std::ptr::null() }
            fn as_mut_ptr(&mut self) -> *mut u8 { std::ptr::null_mut() }
            fn element_layout(&self) -> Layout { self.0 }
            fn size(&self) -> usize { 0 }
        }
    }
}
user_backend!(OkB, OkM, (), ());
user_backend!(NsB, NsBM, NotSend, ());        // builder !Send
user_backend!(NyB, NyBM, NotSync, ());        // builder !Sync
user_backend!(NsM, NsMM, (), NotSend);        // Mem !Send
user_backend!(NyM, NyMM, (), NotSync);        // Mem !Sync
'''

TRAITS = [("dyn None", 0, 0, 0), ("dyn Send", 1, 0, 0), ("dyn Sync", 0, 1, 0), ("dyn Send + Sync", 1, 1, 0),
          ("dyn Cloneable", 0, 0, 1), ("dyn Cloneable + Send", 1, 0, 1), ("dyn Cloneable + Sync", 0, 1, 1), ("dyn Cloneable + Send + Sync", 1, 1, 1)]
# backend: (type, send, sync)
BACKENDS = [("Heap", 1, 1), ("Stack<64>", 1, 1), ("StackN<2, 64>", 1, 1), ("Empty", 1, 1), ("OkB", 1, 1),
            ("NsB", 0, 1), ("NyB", 1, 0), ("NsM", 0, 1), ("NyM", 1, 0)]
# element classes: (type, send, sync, clone)
ELEMS = [("u32", 1, 1, 1), ("Cell<u32>", 1, 0, 1), ("SyncOnly", 0, 1, 0), ("Rc<u8>", 0, 0, 1), ("SendOnlyNoClone", 1, 0, 0), ("String", 1, 1, 1)]

SHARED_HANDLES = [("ElementRef<'static, {T}, {M}>", "element::ElementRef"), ("IterRef<'static, {T}, {M}>", "IterRef"),
                  ("LazyClone<'static, ElementRef<'static, {T}, {M}>>", "LazyClone<ElementRef>")]
EXCL_HANDLES = [("ElementMut<'static, {T}, {M}>", "element::ElementMut"), ("IterMut<'static, {T}, {M}>", "IterMut"),
                ("Element<'static, {T}, {M}>", "element::Element"), ("ops::Pop<'static, {T}, {M}>", "ops::Pop"),
                ("ops::Remove<'static, {T}, {M}>", "ops::Remove"), ("ops::SwapRemove<'static, {T}, {M}>", "ops::SwapRemove"),
                ("ops::Drain<'static, {T}, {M}>", "ops::Drain"),
                ("ops::Splice<'static, {T}, {M}, std::vec::IntoIter<AnyValueWrapper<u32>>>", "ops::Splice"),
                ("LazyClone<'static, Element<'static, {T}, {M}>>", "LazyClone<Element>")]


def extra_handles(ctx):
    """public borrowing types the hand-written tables do not know (added handle types): instantiated from their own generics (a constraint-set parameter bound by
    `Trait`, a backend parameter bound by `MemBuilder`) and classed by how a user obtains them - out of a shared borrow / a shared handle, or out of an exclusive one.
    -> (shared rows, exclusive rows, covered def paths)"""
    fx = ctx.fx
    sh, ex, cov = [], [], set()
    shared_recv = ("element::ElementRef", "any_vec::AnyVecRef", "any_value::lazy_clone::LazyClone")
    for p, a in sorted(fx.adts.items()):
        if not a.get("reachable") or p in P15_BORROWING_TYPES or not any(g["kind"] == "lifetime" for g in a.get("generics", [])):
            continue
        wh = a.get("where", [])
        args, ok = [], True
        for g in a.get("generics", []):
            if g["kind"] == "lifetime":
                args.append("'static")
            elif g["kind"] == "type" and any(w.startswith(g["name"] + ": ") and w.endswith("traits::Trait") for w in wh):
                args.append("{T}")
            elif g["kind"] == "type" and any(w.startswith(g["name"] + ": ") and w.endswith("mem::MemBuilder") for w in wh):
                args.append("{M}")
            elif g["kind"] == "type" and "{E}" not in args and any(w == g["name"] + ": 'static" for w in wh):
                args.append("{E}")          # the element type of a typed handle
            else:
                ok = False
        if not ok or not any(x["path"] == p and x.get("exported") for x in fx.api):
            continue
        cls = None
        for f in fx.fn_list:
            if not ctx.is_public(f) or f.get("unsafe") or "sig" not in f or p not in f["sig"]["output"].get("s", ""):
                continue
            k = f.get("self_kind")
            st = f.get("impl_self_ty", {})
            is_shared = k == "ref" or (k == "value" and st.get("path") in shared_recv) or \
                (k == "value" and st.get("path") == "iter::Iter" and "ElementRefIterItem" in st.get("s", ""))
            cls = "shared" if (is_shared and cls in (None, "shared")) else "excl"
        if cls is None:
            continue
        if "{E}" in args and "{T}" in args:
            continue
        name = p + (":Cloneable" if any("Cloneable" in w for w in wh) else "") + (":typed" if "{E}" in args else "")
        # the type may live in a private module and be re-exported from a parent: every path obtained by dropping inner module segments is a candidate,
        # the probe crate tells which of them names the type (see run())
        segs = p.split("::")
        cands = [x["public"] for x in getattr(fx, "public_paths", []) if x.get("def") == p]
        cands += [c_ for c_ in ["::".join(segs[:i] + segs[-1:]) for i in range(len(segs) - 1, -1, -1)] if c_ not in cands]
        for ci, cp in enumerate(cands):
            row = ("any_vec::%s<%s>" % (cp, ", ".join(args)), name, p, ci)
            (sh if cls == "shared" else ex).append(row)
        cov.add(p)
    return sh, ex, cov


def build_p15(ctx):
    c = Crate("p15probes", P15_PRELUDE)
    n = [0]
    xs, xe, _cov = extra_handles(ctx)

    cur_group = [None]
    named = set()

    def probe(ty, trait, must_hold, must_fail, key, desc):
        n[0] += 1
        pid = "p%d" % n[0]
        code = "fn %s() { assert_%s::<%s>(); }" % (pid, trait.lower(), ty)
        if cur_group[0] is not None:
            key = key + "#%d" % cur_group[0][1] if cur_group[0][1] else key
        c.add(pid, code, None, key, desc, TRAIT_CODES)
        c.probes[pid]["must_hold"] = must_hold
        c.probes[pid]["must_fail"] = must_fail
        if cur_group[0] is not None:
            c.probes[pid]["group"] = cur_group[0]
            if (cur_group[0], ty) not in named:
                # one naming probe per candidate path and instantiation: does this path name the type at all?
                named.add((cur_group[0], ty))
                n[0] += 1
                nid = "p%d" % n[0]
                c.add(nid, "fn %s() { fn _n(_: Option<%s>) {} }" % (nid, ty), None, "P15:%s:nameable#%d" % (cur_group[0][0], cur_group[0][1]), "candidate public path", TRAIT_CODES)
                c.probes[nid]["naming"] = cur_group[0]

    for (t, ts, ty_, tc) in TRAITS:
        for (b, bs, by) in BACKENDS:
            vec = "AnyVec<%s, %s>" % (t, b)
            vsend, vsync = bool(ts and bs), bool(ty_ and by)
            # the vector itself: exactly
            probe(vec, "Send", vsend, not vsend, "P15:AnyVec:Send:%s/%s" % (t, b), "AnyVec is Send exactly when the constraint set includes Send and the backend is Send")
            probe(vec, "Sync", vsync, not vsync, "P15:AnyVec:Sync:%s/%s" % (t, b), "AnyVec is Sync exactly when the constraint set includes Sync and the backend is Sync")
            for row in SHARED_HANDLES + [r_ for r_ in xs if not r_[1].endswith(":typed")]:
                tmpl, name = row[0], row[1]
                grp = (row[2], row[3]) if len(row) > 2 else None
                if ("LazyClone" in name or name.endswith(":Cloneable")) and not tc:
                    continue
                h = tmpl.format(T=t, M=b)
                cur_group[0] = grp
                # shared handle: Send/Sync only if &AnyVec is (i.e. AnyVec: Sync)
                probe(h, "Send", False, not vsync, "P15:%s:Send:%s/%s" % (name, t, b), "a shared handle may be Send only if &AnyVec is Send (AnyVec: Sync)")
                probe(h, "Sync", False, not vsync, "P15:%s:Sync:%s/%s" % (name, t, b), "a shared handle may be Sync only if &AnyVec is Sync (AnyVec: Sync)")
            cur_group[0] = None
            for row in EXCL_HANDLES + [r_ for r_ in xe if not r_[1].endswith(":typed")]:
                tmpl, name = row[0], row[1]
                grp = (row[2], row[3]) if len(row) > 2 else None
                if ("LazyClone" in name or name.endswith(":Cloneable")) and not tc:
                    continue
                h = tmpl.format(T=t, M=b)
                cur_group[0] = grp
                lazy = "LazyClone" in name
                # exclusive handle: Send only if &mut AnyVec is Send (AnyVec: Send); Sync only if AnyVec: Sync.  LazyClone<X> holds &X: Send iff X: Sync.
                probe(h, "Send", False, not (vsync if lazy else vsend), "P15:%s:Send:%s/%s" % (name, t, b), "an exclusive handle may be Send only if &mut AnyVec is Send (AnyVec: Send)")
                probe(h, "Sync", False, not vsync, "P15:%s:Sync:%s/%s" % (name, t, b), "a handle may be Sync only if AnyVec is Sync")
            cur_group[0] = None
            # Clone exists only with Cloneable
            n[0] += 1
            pid = "p%d" % n[0]
            c.add(pid, "fn %s() { assert_clone::<%s>(); }" % (pid, vec), None, "P15:AnyVec:Clone:%s/%s" % (t, b), "clone() exists exactly with Cloneable", TRAIT_CODES)
            c.probes[pid]["must_hold"] = bool(tc)
            c.probes[pid]["must_fail"] = not tc
    # typed views over element classes
    for (e, es, ey, ec) in ELEMS[:4]:
        for (b, bs, by) in BACKENDS:
            shared_ok = bool(ey and by)
            excl_send = bool(es and bs)
            typed_rows = [("AnyVecRef<'static, {E}, {M}>", "AnyVecRef", "shared", None), ("AnyVecMut<'static, {E}, {M}>", "AnyVecMut", "excl", None),
                          ("AnyVecTyped<'static, {E}, {M}>", "AnyVecTyped", "excl", None)]
            typed_rows += [(r_[0], r_[1], "shared", (r_[2], r_[3])) for r_ in xs if r_[1].endswith(":typed")]
            typed_rows += [(r_[0], r_[1], "excl", (r_[2], r_[3])) for r_ in xe if r_[1].endswith(":typed")]
            for (tmpl, name, kind, grp_) in typed_rows:
                cur_group[0] = grp_
                h = tmpl.format(E=e, M=b)
                if kind == "shared":
                    probe(h, "Send", False, not shared_ok, "P15:%s:Send:%s/%s" % (name, e, b), "a shared typed view may be Send only if T: Sync and the backend is Sync")
                else:
                    probe(h, "Send", False, not excl_send, "P15:%s:Send:%s/%s" % (name, e, b), "an exclusive typed view may be Send only if T: Send and the backend is Send")
                probe(h, "Sync", False, not shared_ok, "P15:%s:Sync:%s/%s" % (name, e, b), "a typed view may be Sync only if T: Sync and the backend is Sync")
    cur_group[0] = None
    # element class tables are themselves probed
    for (e, es, ey, ec) in ELEMS:
        probe(e, "Send", bool(es), not es, "P15:class-table:Send:%s" % e, "element class table")
        probe(e, "Sync", bool(ey), not ey, "P15:class-table:Sync:%s" % e, "element class table")
    for (b, bs, by) in BACKENDS:
        probe("(%s, <%s as MemBuilder>::Mem)" % (b, b), "Send", bool(bs), not bs, "P15:backend-table:Send:%s" % b, "backend class table")
        probe("(%s, <%s as MemBuilder>::Mem)" % (b, b), "Sync", bool(by), not by, "P15:backend-table:Sync:%s" % b, "backend class table")
    # constructors: an element type lacking a declared constraint is rejected
    for (t, ts, ty_, tc) in TRAITS:
        for (e, es, ey, ec) in ELEMS:
            ok = (not ts or es) and (not ty_ or ey) and (not tc or ec)
            for ctor, arg, back in (("new", "", "Heap"), ("new_in", "Stack::<64>", "Stack<64>"), ("with_capacity", "4", "Heap"), ("with_capacity_in", "4, Heap", "Heap")):
                n[0] += 1
                pid = "p%d" % n[0]
                code = "fn %s() { let _v: AnyVec<%s, %s> = AnyVec::%s::<%s>(%s); }" % (pid, t, back, ctor, e, arg)
                c.add(pid, code, None, "P15:ctor:%s:%s/%s" % (ctor, t, e), "constructors accept exactly the element types satisfying the constraint set", TRAIT_CODES)
                c.probes[pid]["must_hold"] = bool(ok)
                c.probes[pid]["must_fail"] = not ok
    # capacity methods exist only for backends that support them
    # which built-in backends support what is read off the crate (an impl of MemBuilderSizeable for the builder / of MemResizable for its Mem type): the
    # methods must exist exactly for those; the user backend of the prelude (OkB) implements neither
    fx = ctx.fx
    mem_of = {im["self_ty"].get("path"): next((it.get("ty", {}).get("path") for it in im["items"] if it["name"] == "Mem"), None) for im in fx.impls_of("mem::MemBuilder")}
    sizeable_b = {im["self_ty"].get("path") for im in fx.impls_of("mem::MemBuilderSizeable")}
    resizable_m = {im["self_ty"].get("path") for im in fx.impls_of("mem::MemResizable")}
    rows = []
    for b, bp in (("Heap", "mem::heap::Heap"), ("Stack<64>", "mem::stack::Stack"), ("StackN<2, 64>", "mem::stack_n::StackN"), ("Empty", "mem::empty::Empty")):
        if bp in mem_of:
            rows.append((b, int(mem_of[bp] in resizable_m), int(bp in sizeable_b)))
    rows.append(("OkB", 0, 0))
    for (b, resizable, sizeable) in rows:
        for m, arg in (("reserve", "1"), ("reserve_exact", "1"), ("shrink_to_fit", ""), ("shrink_to", "1")):
            n[0] += 1
            pid = "p%d" % n[0]
            c.add(pid, "fn %s(v: &mut AnyVec<dyn None, %s>) { v.%s(%s); }" % (pid, b, m, arg), None, "P15:capacity-method:%s:%s" % (m, b),
                  "capacity methods exist exactly for resizable backends", TRAIT_CODES)
            c.probes[pid]["must_hold"] = bool(resizable)
            c.probes[pid]["must_fail"] = not resizable
            n[0] += 1
            pid = "p%d" % n[0]
            c.add(pid, "fn %s(mut t: AnyVecMut<u32, %s>) { t.%s(%s); }" % (pid, b, m, arg), None, "P15:capacity-method-typed:%s:%s" % (m, b),
                  "capacity methods exist exactly for resizable backends", TRAIT_CODES)
            c.probes[pid]["must_hold"] = bool(resizable)
            c.probes[pid]["must_fail"] = not resizable
        n[0] += 1
        pid = "p%d" % n[0]
        c.add(pid, "fn %s() { let _v: AnyVec<dyn None, %s> = AnyVec::with_capacity_in::<u32>(4, Default::default()); }" % (pid, b), None,
              "P15:capacity-method:with_capacity_in:%s" % b, "with_capacity exists exactly for sizeable builders", TRAIT_CODES)
        c.probes[pid]["must_hold"] = bool(sizeable)
        c.probes[pid]["must_fail"] = not sizeable
    return c


P15_BORROWING_TYPES = ("element::ElementRef", "element::ElementMut", "element::ElementPointer", "iter::Iter", "ops::temp::TempValue", "ops::iter::Iter", "any_vec::AnyVecRef",
                       "any_vec::AnyVecMut", "any_vec_typed::AnyVecTyped", "any_value::lazy_clone::LazyClone", "ops::pop::Pop", "ops::remove::Remove", "ops::swap_remove::SwapRemove",
                       "ops::drain::Drain", "ops::splice::Splice", "iter::ElementIterItem", "iter::ElementRefIterItem", "iter::ElementMutIterItem")


def inventory_check(ctx, res):
    """every `unsafe impl Send/Sync` header of the crate belongs to a type the matrix covers"""
    covered = {"any_vec::AnyVec", "any_vec_typed::AnyVecTyped", "element::ElementPointer", "iter::Iter", "ops::temp::TempValue", "mem::heap::HeapMem"}
    n = 0
    for im in ctx.fx.impls:
        if im.get("trait") in ("core::marker::Send", "core::marker::Sync") and not im.get("negative"):
            n += 1
            st = im["self_ty"].get("path", im["self_ty"].get("s"))
            res.inst(sample={"unsafe_impl": im.get("trait_ref"), "where": im.get("where")})
            if st in covered:
                res.ok()
            else:
                res.fail(st, "uncovered-impl:%s" % im["trait"].split("::")[-1], "`unsafe impl %s for %s` is not covered by the probe matrix" % (im["trait"].split("::")[-1], st),
                         kind="coverage-lost")
    if n < 12:
        res.coverage_lost("<crate>", "expected >= 12 unsafe Send/Sync impls, found %d" % n)
    # public types with lifetime parameters must be in the matrix
    names = set(P15_BORROWING_TYPES) | extra_handles(ctx)[2]
    _unused = {"element::ElementRef", "element::ElementMut", "element::ElementPointer", "iter::Iter", "ops::temp::TempValue", "ops::iter::Iter", "any_vec::AnyVecRef",
             "any_vec::AnyVecMut", "any_vec_typed::AnyVecTyped", "any_value::lazy_clone::LazyClone", "ops::pop::Pop", "ops::remove::Remove", "ops::swap_remove::SwapRemove",
             "ops::drain::Drain", "ops::splice::Splice", "iter::ElementIterItem", "iter::ElementRefIterItem", "iter::ElementMutIterItem"}
    for p, a in sorted(ctx.fx.adts.items()):
        if a.get("reachable") and any(g["kind"] == "lifetime" for g in a.get("generics", [])):
            res.inst(sample={"borrowing_type": p})
            if p in names:
                res.ok()
            else:
                res.fail(p, "uncovered-type", "public borrowing type %s is not covered by the Send/Sync probe matrix" % p, kind="coverage-lost")


# ------------------------------------------------------------------------------------------------ P16

P16_PRELUDE = r'''
#![allow(unused, dead_code, unused_mut, unused_variables, unused_assignments, clippy::all)]
use any_vec::*;
use any_vec::traits::*;
use any_vec::any_value::*;
use any_vec::element::*;

type V = AnyVec<dyn Cloneable>;
fn mk() -> V { let mut v: V = AnyVec::new::<String>(); v.push(AnyValueWrapper::new(String::new())); v }
fn keep<T>(_: &T) {}
fn repl() -> Vec<AnyValueWrapper<String>> { Vec::new() }
'''

# (method key (fn path in the fact base), kind, handle expression on `v`, extra setup)
ERASED_ROWS = [
    ("any_vec::AnyVec::iter", "shared", "v.iter()"),
    ("any_vec::AnyVec::at", "shared", "v.at(0)"),
    ("any_vec::AnyVec::get", "shared", "v.get(0)"),
    ("any_vec::AnyVec::as_bytes", "shared", "v.as_bytes()"),
    ("any_vec::AnyVec::downcast_ref", "shared", "v.downcast_ref::<String>()"),
    ("any_vec::AnyVec::get_unchecked", "shared", "unsafe { v.get_unchecked(0) }"),
    ("any_vec::AnyVec::downcast_ref_unchecked", "shared", "unsafe { v.downcast_ref_unchecked::<String>() }"),
    ("<&any_vec::AnyVec as core::iter::IntoIterator>::into_iter", "shared", "(&v).into_iter()"),
    ("any_vec::AnyVec::iter_mut", "excl", "v.iter_mut()"),
    ("any_vec::AnyVec::at_mut", "excl", "v.at_mut(0)"),
    ("any_vec::AnyVec::get_mut", "excl", "v.get_mut(0)"),
    ("any_vec::AnyVec::as_bytes_mut", "excl", "v.as_bytes_mut()"),
    ("any_vec::AnyVec::spare_bytes_mut", "excl", "v.spare_bytes_mut()"),
    ("any_vec::AnyVec::downcast_mut", "excl", "v.downcast_mut::<String>()"),
    ("any_vec::AnyVec::get_unchecked_mut", "excl", "unsafe { v.get_unchecked_mut(0) }"),
    ("any_vec::AnyVec::downcast_mut_unchecked", "excl", "unsafe { v.downcast_mut_unchecked::<String>() }"),
    ("<&mut any_vec::AnyVec as core::iter::IntoIterator>::into_iter", "excl", "(&mut v).into_iter()"),
    ("any_vec::AnyVec::pop", "excl", "v.pop()"),
    ("any_vec::AnyVec::remove", "excl", "v.remove(0)"),
    ("any_vec::AnyVec::swap_remove", "excl", "v.swap_remove(0)"),
    ("any_vec::AnyVec::drain", "excl", "v.drain(..)"),
    ("any_vec::AnyVec::splice", "excl", "v.splice(.., repl())"),
]
# typed view rows: handle expression on `t` (a typed view) ; view kind needed
TYPED_ROWS = [
    ("any_vec_typed::AnyVecTyped::iter", "shared", "t.iter()"),
    ("any_vec_typed::AnyVecTyped::at", "shared", "t.at(0)"),
    ("any_vec_typed::AnyVecTyped::get", "shared", "t.get(0)"),
    ("any_vec_typed::AnyVecTyped::as_slice", "shared", "t.as_slice()"),
    ("any_vec_typed::AnyVecTyped::get_unchecked", "shared", "unsafe { t.get_unchecked(0) }"),
    ("any_vec_typed::AnyVecTyped::iter_mut", "excl", "t.iter_mut()"),
    ("any_vec_typed::AnyVecTyped::at_mut", "excl", "t.at_mut(0)"),
    ("any_vec_typed::AnyVecTyped::get_mut", "excl", "t.get_mut(0)"),
    ("any_vec_typed::AnyVecTyped::as_mut_slice", "excl", "t.as_mut_slice()"),
    ("any_vec_typed::AnyVecTyped::spare_capacity_mut", "excl", "t.spare_capacity_mut()"),
    ("any_vec_typed::AnyVecTyped::get_unchecked_mut", "excl", "unsafe { t.get_unchecked_mut(0) }"),
    ("any_vec_typed::AnyVecTyped::drain", "excl", "t.drain(..)"),
    ("any_vec_typed::AnyVecTyped::splice", "excl", "t.splice(.., Vec::<String>::new())"),
    ("<any_vec::AnyVecRef as core::iter::IntoIterator>::into_iter", "shared-view-consume", "t.into_iter()"),
    ("<any_vec::AnyVecMut as core::iter::IntoIterator>::into_iter", "excl-view-consume", "t.into_iter()"),
]
# rows whose receivers are element handles / values
ELEMENT_ROWS = [
    ("element::ElementPointer::downcast_ref", "e.downcast_ref::<String>()"),
    ("element::ElementPointer::downcast_mut", "e.downcast_mut::<String>()"),
    ("element::ElementPointer::downcast_ref_unchecked", None),
    ("element::ElementPointer::downcast_mut_unchecked", None),
    ("any_value::AnyValue::downcast_ref", None), ("any_value::AnyValueMut::downcast_mut", None),
    ("any_value::AnyValueTypeless::as_bytes", None), ("any_value::AnyValueTypelessMut::as_bytes_mut", None),
    ("any_value::AnyValueSizeless::downcast_ref_unchecked", None), ("any_value::AnyValueSizelessMut::downcast_mut_unchecked", None),
    ("any_value::AnyValueCloneable::lazy_clone", None), ("any_value::lazy_clone::LazyClone::new", None),
    ("<any_vec::AnyVecRef as core::ops::Deref>::deref", None), ("<any_vec::AnyVecMut as core::ops::Deref>::deref", None),
    ("<any_vec::AnyVecMut as core::ops::DerefMut>::deref_mut", None),
    ("<element::ElementRef as core::ops::Deref>::deref", None), ("<element::ElementMut as core::ops::Deref>::deref", None),
    ("<element::ElementMut as core::ops::DerefMut>::deref_mut", None),
]


def auto_rows(ctx):
    """probe rows for public safe methods of AnyVec / AnyVecTyped without a hand-written row, when a call can be synthesised from the signature alone
    (no method-level type parameters, every argument a usize): -> (erased rows, typed rows)"""
    covered = {r[0] for r in ERASED_ROWS} | {r[0] for r in TYPED_ROWS} | {r[0] for r in ELEMENT_ROWS}
    er, ty = [], []
    for f in ctx.fx.fn_list:
        if f.get("kind") != "AssocFn" or not ctx.is_public(f) or f.get("unsafe") or f.get("impl_trait") or f.get("self_kind") not in ("ref", "mut"):
            continue
        if ctx.fx.fn(f["path"]) is not f:
            continue
        sig = f["sig"]
        if not sig.get("output_free_regions") and not sig.get("output_bound_regions"):
            continue
        cp = ctx.p2c.get(f["path"], f["path"])
        st = f.get("impl_self_ty", {}).get("path")
        if cp in covered or st not in ("any_vec::AnyVec", "any_vec_typed::AnyVecTyped"):
            continue
        if sum(1 for g in f.get("generics", []) if g.get("kind") == "type") > 2:
            continue
        ins = sig["inputs"][1:]
        if not all(t.get("s") == "usize" for t in ins):
            continue
        call = "%s.%s(%s)" % ("v" if st == "any_vec::AnyVec" else "t", f["name"], ", ".join("0" for _ in ins))
        (er if st == "any_vec::AnyVec" else ty).append((cp, "excl" if f["self_kind"] == "mut" else "shared", call))
    return sorted(er), sorted(ty)


def build_p16(ctx):
    c = Crate("p16probes", P16_PRELUDE)
    n = [0]
    auto_er, auto_ty = auto_rows(ctx)

    def pair(key, desc, fail_body, twin_body, sig="()"):
        n[0] += 1
        i = n[0]
        c.add("f%d" % i, "fn f%d%s {\n%s\n}" % (i, sig, fail_body), True, key, desc, BORROW_CODES)
        c.add("t%d" % i, "fn t%d%s {\n%s\n}" % (i, sig, twin_body), False, key, desc + " (twin)", BORROW_CODES)

    for (m, kind, h) in ERASED_ROWS + auto_er:
        # 1 mutate source
        pair("P16:%s:1-mutate-source" % m, "mutating the source while the handle is alive",
             "    let mut v = mk();\n    let h = %s;\n    v.clear();\n    keep(&h);\n    drop(h);" % h,
             "    let mut v = mk();\n    let h = %s;\n    keep(&h);\n    drop(h);\n    v.clear();" % h)
        if kind == "excl":
            pair("P16:%s:2-read-under-exclusive" % m, "reading the source while an exclusive handle is alive",
                 "    let mut v = mk();\n    let h = %s;\n    let _n = v.len();\n    keep(&h);\n    drop(h);" % h,
                 "    let mut v = mk();\n    let h = %s;\n    keep(&h);\n    drop(h);\n    let _n = v.len();" % h)
            pair("P16:%s:3-second-exclusive" % m, "a second exclusive handle while the first is alive",
                 "    let mut v = mk();\n    let h = %s;\n    let g = %s;\n    keep(&h);\n    drop(h);\n    keep(&g);\n    drop(g);" % (h, h),
                 "    let mut v = mk();\n    let h = %s;\n    keep(&h);\n    drop(h);\n    let g = %s;\n    keep(&g);\n    drop(g);" % (h, h))
        pair("P16:%s:4-move-drop-source" % m, "moving / dropping the source while the handle is alive",
             "    let mut v = mk();\n    let h = %s;\n    drop(v);\n    keep(&h);\n    drop(h);" % h,
             "    let mut v = mk();\n    let h = %s;\n    keep(&h);\n    drop(h);\n    drop(v);" % h)
        pair("P16:%s:5-escape-scope" % m, "keeping the handle beyond its source",
             "    let h;\n    {\n        let mut v = mk();\n        h = %s;\n    }\n    keep(&h);" % h,
             "    {\n        let mut v = mk();\n        let h;\n        h = %s;\n        keep(&h);\n    }" % h)
    # 6 consume a removal handle twice
    for (m, h) in (("any_vec::AnyVec::pop", "v.pop().unwrap()"), ("any_vec::AnyVec::remove", "v.remove(0)"),
                   ("any_vec::AnyVec::swap_remove", "v.swap_remove(0)"), ("any_vec::AnyVec::drain", "v.drain(..).next().unwrap()")):
        pair("P16:%s:6-consume-twice" % m, "consuming a removed value twice",
             "    let mut v = mk();\n    let mut w = mk();\n    let h = %s;\n    w.push(h);\n    w.push(h);" % h,
             "    let mut v = mk();\n    let mut w = mk();\n    let h = %s;\n    w.push(h);" % h)
    # typed views
    for (m, kind, h) in TYPED_ROWS + auto_ty:
        if kind in ("shared-view-consume", "excl-view-consume"):
            view = "v.downcast_ref::<String>().unwrap()" if kind.startswith("shared") else "v.downcast_mut::<String>().unwrap()"
            pair("P16:%s:1-mutate-source" % m, "mutating the source while items of the consumed view are alive",
                 "    let mut v = mk();\n    let t = %s;\n    let h = %s;\n    v.clear();\n    keep(&h);\n    drop(h);" % (view, h),
                 "    let mut v = mk();\n    let t = %s;\n    let h = %s;\n    keep(&h);\n    drop(h);\n    v.clear();" % (view, h))
            continue
        is_unsafe = "unsafe {" in h
        # through a mutable view: 7 mutate through the view, then reuse the earlier borrow (unsafe accessors: caller obligation, listed not judged)
        if not is_unsafe:
          pair("P16:%s:7-mutate-through-view" % m, "mutating through the typed view and then using an earlier borrow from it",
             "    let mut v = mk();\n    let mut t = v.downcast_mut::<String>().unwrap();\n    let h = %s;\n    t.push(String::new());\n    keep(&h);\n    drop(h);" % h,
             "    let mut v = mk();\n    let mut t = v.downcast_mut::<String>().unwrap();\n    let h = %s;\n    keep(&h);\n    drop(h);\n    t.push(String::new());" % h)
        pair("P16:%s:1-mutate-source" % m, "mutating the source vector while a borrow from its typed view is alive",
             "    let mut v = mk();\n    let mut t = v.downcast_mut::<String>().unwrap();\n    let h = %s;\n    v.clear();\n    keep(&h);\n    drop(h);" % h,
             "    let mut v = mk();\n    let mut t = v.downcast_mut::<String>().unwrap();\n    let h = %s;\n    keep(&h);\n    drop(h);\n    v.clear();" % h)
        pair("P16:%s:5-escape-scope" % m, "keeping a borrow from the typed view beyond the vector",
             "    let h;\n    {\n        let mut v = mk();\n        let mut t = v.downcast_mut::<String>().unwrap();\n        h = %s;\n    }\n    keep(&h);" % h,
             "    {\n        let mut v = mk();\n        let mut t = v.downcast_mut::<String>().unwrap();\n        let h;\n        h = %s;\n        keep(&h);\n    }" % h)
        if kind == "excl" and not is_unsafe:
            pair("P16:%s:8-two-mutable-paths" % m, "two simultaneous mutable paths to the same elements",
                 "    let mut v = mk();\n    let mut t = v.downcast_mut::<String>().unwrap();\n    let a = %s;\n    let b = %s;\n    keep(&a);\n    drop(a);\n    keep(&b);\n    drop(b);" % (h, h),
                 "    let mut v = mk();\n    let mut t = v.downcast_mut::<String>().unwrap();\n    let a = %s;\n    keep(&a);\n    drop(a);\n    let b = %s;\n    keep(&b);\n    drop(b);" % (h, h))
    # element handles
    pair("P16:element::ElementPointer::downcast_mut:8-two-mutable-paths", "two &mut T from one ElementMut",
         "    let mut v = mk();\n    let mut e = v.at_mut(0);\n    let a = e.downcast_mut::<String>().unwrap();\n    let b = e.downcast_mut::<String>().unwrap();\n    keep(&a);\n    keep(&b);",
         "    let mut v = mk();\n    let mut e = v.at_mut(0);\n    let a = e.downcast_mut::<String>().unwrap();\n    keep(&a);\n    let b = e.downcast_mut::<String>().unwrap();\n    keep(&b);")
    pair("P16:element::ElementPointer::downcast_ref:7-mutate-through-view", "&T from an ElementMut kept across a &mut T to the same element",
         "    let mut v = mk();\n    let mut e = v.at_mut(0);\n    let r = e.downcast_ref::<String>().unwrap();\n    let m = e.downcast_mut::<String>().unwrap();\n    m.push('x');\n    keep(&r);",
         "    let mut v = mk();\n    let mut e = v.at_mut(0);\n    let r = e.downcast_ref::<String>().unwrap();\n    keep(&r);\n    let m = e.downcast_mut::<String>().unwrap();\n    m.push('x');")
    pair("P16:element::ElementPointer::downcast_ref:1-mutate-source", "&T from an element kept across a mutation of the vector",
         "    let mut v = mk();\n    let r = v.at(0).downcast_ref::<String>().unwrap();\n    v.clear();\n    keep(&r);",
         "    let mut v = mk();\n    let r = v.at(0).downcast_ref::<String>().unwrap();\n    keep(&r);\n    v.clear();")
    pair("P16:element::ElementPointer::downcast_mut:1-mutate-source", "&mut T from an element kept across a mutation of the vector",
         "    let mut v = mk();\n    let r = v.at_mut(0).downcast_mut::<String>().unwrap();\n    v.clear();\n    keep(&r);",
         "    let mut v = mk();\n    let r = v.at_mut(0).downcast_mut::<String>().unwrap();\n    keep(&r);\n    v.clear();")
    pair("P16:any_value::AnyValueMut::downcast_mut:8-two-mutable-paths", "two &mut T from one removal handle",
         "    let mut v = mk();\n    let mut h = v.pop().unwrap();\n    let a = AnyValueMut::downcast_mut::<String>(&mut h).unwrap();\n    let b = AnyValueMut::downcast_mut::<String>(&mut h).unwrap();\n    keep(&a);\n    keep(&b);",
         "    let mut v = mk();\n    let mut h = v.pop().unwrap();\n    let a = AnyValueMut::downcast_mut::<String>(&mut h).unwrap();\n    keep(&a);\n    let b = AnyValueMut::downcast_mut::<String>(&mut h).unwrap();\n    keep(&b);")
    pair("P16:any_value::AnyValueTypelessMut::as_bytes_mut:8-two-mutable-paths", "bytes view and typed &mut of one element",
         "    let mut v = mk();\n    let mut e = v.at_mut(0);\n    let a = e.as_bytes_mut();\n    let b = AnyValueMut::downcast_mut::<String>(&mut *e).unwrap();\n    keep(&a);\n    keep(&b);",
         "    let mut v = mk();\n    let mut e = v.at_mut(0);\n    let a = e.as_bytes_mut();\n    keep(&a);\n    let b = AnyValueMut::downcast_mut::<String>(&mut *e).unwrap();\n    keep(&b);")
    pair("P16:any_value::AnyValueTypeless::as_bytes:1-mutate-source", "byte view of an element kept across a mutation of the vector",
         "    let mut v = mk();\n    let e = v.at(0);\n    let a = e.as_bytes();\n    v.clear();\n    keep(&a);",
         "    let mut v = mk();\n    let e = v.at(0);\n    let a = e.as_bytes();\n    keep(&a);\n    v.clear();")
    pair("P16:iter::Iter:8-two-mutable-paths", "cloning a mutable iterator",
         "    let mut v = mk();\n    let mut i = v.iter_mut();\n    let mut j = i.clone();\n    let a = i.next();\n    let b = j.next();\n    keep(&a);\n    keep(&b);",
         "    let mut v = mk();\n    let mut i = v.iter_mut();\n    let a = i.next();\n    keep(&a);")
    pair("P16:any_value::AnyValueCloneable::lazy_clone:1-mutate-source", "lazy clone kept across a mutation of its source vector",
         "    let mut v = mk();\n    let e = v.at(0);\n    let l = e.lazy_clone();\n    v.clear();\n    keep(&l);",
         "    let mut v = mk();\n    let e = v.at(0);\n    let l = e.lazy_clone();\n    keep(&l);\n    v.clear();")
    pair("P16:any_value::AnyValueCloneable::lazy_clone:5-escape-scope", "lazy clone outliving its source element",
         "    let mut v = mk();\n    let l;\n    {\n        let e = v.swap_remove(0);\n        l = e.lazy_clone();\n    }\n    keep(&l);",
         "    let mut v = mk();\n    {\n        let e = v.swap_remove(0);\n        let l;\n        l = e.lazy_clone();\n        keep(&l);\n    }")
    pair("P16:any_value::AnyValueCloneable::lazy_clone:4-move-drop-source", "source handle consumed while a lazy clone of it is alive",
         "    let mut v = mk();\n    let mut w = mk();\n    let e = v.swap_remove(0);\n    let l = e.lazy_clone();\n    w.push(e);\n    w.push(l);",
         "    let mut v = mk();\n    let mut w = mk();\n    let e = v.swap_remove(0);\n    let l = e.lazy_clone();\n    w.push(l);\n    w.push(e);")
    pair("P16:any_value::lazy_clone::LazyClone::new:1-mutate-source", "LazyClone::new(&element) kept across a mutation of the source vector",
         "    let mut v = mk();\n    let e = v.at(0);\n    let l = LazyClone::new(&*e);\n    v.clear();\n    keep(&l);",
         "    let mut v = mk();\n    let e = v.at(0);\n    let l = LazyClone::new(&*e);\n    keep(&l);\n    v.clear();")
    pair("P16:any_value::lazy_clone::LazyClone::new:5-escape-scope", "LazyClone::new(&handle) outliving the handle",
         "    let mut v = mk();\n    let l;\n    {\n        let e = v.swap_remove(0);\n        l = LazyClone::new(&e);\n    }\n    keep(&l);",
         "    let mut v = mk();\n    {\n        let e = v.swap_remove(0);\n        let l;\n        l = LazyClone::new(&e);\n        keep(&l);\n    }")
    pair("P16:any_value::lazy_clone::LazyClone::new:4-move-drop-source", "source handle consumed while a LazyClone::new of it is alive",
         "    let mut v = mk();\n    let mut w = mk();\n    let e = v.swap_remove(0);\n    let l = LazyClone::new(&e);\n    w.push(e);\n    w.push(l);",
         "    let mut v = mk();\n    let mut w = mk();\n    let e = v.swap_remove(0);\n    let l = LazyClone::new(&e);\n    w.push(l);\n    w.push(e);")
    pair("P16:drained-item:1-mutate-source", "a drained item kept across a mutation of the vector",
         "    let mut v = mk();\n    let e = v.drain(..).next().unwrap();\n    v.clear();\n    keep(&e);\n    drop(e);",
         "    let mut v = mk();\n    let e = v.drain(..).next().unwrap();\n    keep(&e);\n    drop(e);\n    v.clear();")
    pair("P16:typed-view:2-read-under-exclusive", "using the vector while its mutable typed view is alive",
         "    let mut v = mk();\n    let mut t = v.downcast_mut::<String>().unwrap();\n    let _n = v.len();\n    t.push(String::new());",
         "    let mut v = mk();\n    let mut t = v.downcast_mut::<String>().unwrap();\n    t.push(String::new());\n    let _n = v.len();")
    pair("P16:typed-view:shared-view-cannot-mutate", "mutating through a shared typed view",
         "    let mut v = mk();\n    let mut t = v.downcast_ref::<String>().unwrap();\n    t.push(String::new());",
         "    let mut v = mk();\n    let mut t = v.downcast_mut::<String>().unwrap();\n    t.push(String::new());")
    c.probes["f%d" % n[0]]["codes"] = BORROW_CODES | {"E0596", "E0599"}
    return c


def _value_receiver_ok(ctx, f):
    """`self` by value on a handle type: every lifetime in the output already occurs in the consumed handle's type (the conversion keeps the same borrow), and an
    exclusive output only comes out of an exclusive handle"""
    from .rules.structure import _is_exclusive_out
    sig = f["sig"]
    free = set(sig.get("output_free_regions", []))
    in_free = set()
    for r in sig.get("input_regions", [])[:1]:
        in_free |= set(r.get("free", []))
    if not free <= in_free or sig.get("output_bound_regions"):
        return False
    if _is_exclusive_out(sig["output"]) and not _is_exclusive_out(sig["inputs"][0]):
        return False
    return True


def p16_row_coverage(ctx, res):
    """every public method whose output carries a lifetime has a probe row"""
    auto_er, auto_ty = auto_rows(ctx)
    covered = {r[0] for r in ERASED_ROWS} | {r[0] for r in TYPED_ROWS} | {r[0] for r in ELEMENT_ROWS} | {r[0] for r in auto_er} | {r[0] for r in auto_ty}
    exported_traits = {a["path"] for a in ctx.fx.api if a["kind"] == "Trait" and a["exported"]}
    from .rules import structure
    sig_res = structure.r_sig(ctx)
    sig_judged = set(sig_res.functions)
    handle_types = set(P15_BORROWING_TYPES) | {"any_vec::AnyVec", "any_vec_raw::AnyVecRaw"} | extra_handles(ctx)[2]

    def new_handle_type(t, depth=0):
        """a local borrowing ADT in the output that no probe row covers"""
        if depth > 6 or not isinstance(t, dict):
            return None
        k = t.get("k")
        if k == "adt":
            a = ctx.fx.adts.get(t["path"])
            if a is not None and any(g["kind"] == "lifetime" for g in a.get("generics", [])) and t["path"] not in handle_types:
                return t["path"]
            for x in t.get("args", []):
                r = new_handle_type(x, depth + 1)
                if r:
                    return r
        if k in ("ref", "ptr", "slice", "array"):
            return new_handle_type(t.get("to"), depth + 1)
        if k == "tuple":
            for x in t.get("elems", []):
                r = new_handle_type(x, depth + 1)
                if r:
                    return r
        return None
    n = 0
    for f in ctx.fx.fn_list:
        if f.get("kind") != "AssocFn" or not ctx.is_public(f) or f.get("self_kind") not in ("ref", "mut", "value"):
            continue
        sig = f["sig"]
        if not sig.get("output_free_regions") and not sig.get("output_bound_regions"):
            continue
        it = f.get("impl_trait")
        if it and it.startswith("core::") and it not in ("core::iter::IntoIterator", "core::ops::Deref", "core::ops::DerefMut"):
            continue
        if it and not it.startswith("core::") and it not in exported_traits:
            continue
        if f.get("parent_kind") == "Trait" and f.get("parent") not in exported_traits:
            continue
        if it and not it.startswith("core::"):
            continue      # impls of exported local traits: the trait method row covers them
        n += 1
        res.inst(sample={"borrowing_method": f["path"]})
        if ctx.p2c.get(f["path"], f["path"]) in covered:
            res.ok()
            continue
        # no compile probe can be synthesised for this method: its signature is judged by R-SIG instead (the borrow checker keeps the receiver borrowed for as
        # long as a value whose type mentions the receiver's borrow region is alive; R-SIG reports every output region that is not such a region), provided
        # every borrowing type in the output is one the probe matrix already exercises
        nh = new_handle_type(f["sig"]["output"])
        if nh is None and f["path"] in sig_judged:
            res.ok()
        elif nh is None and f.get("self_kind") == "value" and _value_receiver_ok(ctx, f):
            res.ok()
        else:
            res.fail(f["path"], "uncovered-row", "public method %s returns something carrying a lifetime; no borrow-probe row can be synthesised for it and %s"
                     % (f["path"], ("its output mentions the borrowing type %s, which no probe row exercises" % nh) if nh else "R-SIG does not judge its signature"),
                     kind="coverage-lost")
    if n < 40:
        res.coverage_lost("<crate>", "expected >= 40 borrowing public methods, found %d" % n)


# ------------------------------------------------------------------------------------------------ P19

P19_PRELUDE = r'''
#![no_std]
#![allow(unused, dead_code)]
use any_vec::*;
use any_vec::traits::*;
use any_vec::mem::*;
use any_vec::any_value::*;
'''


def build_p19(ctx):
    c = Crate("p19probes", P19_PRELUDE)
    ops_body = '''    let mut v: AnyVec<dyn Cloneable, Stack<256>> = AnyVec::new::<u64>();
    v.push(AnyValueWrapper::new(1u64));
    v.insert(0, AnyValueWrapper::new(2u64));
    let _ = v.get(0); let _ = v.at(0); let _ = v.get_mut(0); let _ = v.at_mut(0);
    for _e in v.iter() {} for _e in v.iter_mut() {}
    let _ = v.as_bytes(); let _ = v.as_bytes_mut(); let _ = v.spare_bytes_mut();
    { let mut t = v.downcast_mut::<u64>().unwrap(); t.push(3); t.insert(0, 4); let _ = t.pop(); let _ = t.remove(0); let _ = t.swap_remove(0);
      let _ = t.as_slice(); let _ = t.as_mut_slice(); let _ = t.spare_capacity_mut(); for _x in t.drain(..) {} for _x in t.splice(.., [1u64, 2u64]) {} t.clear(); }
    let _ = v.downcast_ref::<u64>();
    drop(v.pop()); drop(v.remove(0)); drop(v.swap_remove(0));
    for _e in v.drain(..) {}
    for _e in v.splice(.., [AnyValueWrapper::new(5u64)]) {}
    let w = v.clone(); let _x = v.clone_empty(); let mut y = v.clone_empty_in(StackN::<2, 64>);
    y.push(w.at(0).lazy_clone());
    v.clear();
    let _ = (v.len(), v.capacity(), v.is_empty(), v.element_typeid(), v.element_layout());
    let e: AnyVec<dyn None, Empty> = AnyVec::new::<u64>();
    let p = e.into_raw_parts(); let _e2: AnyVec<dyn None, Empty> = unsafe { AnyVec::from_raw_parts(p) };'''
    c.add("ops", "pub fn full_operation_set() {\n%s\n}" % ops_body, False, "P19:stack-operation-set",
          "a stack-backed vector offers the complete operation set without the alloc feature", TRAIT_CODES | BORROW_CODES | {"E0432", "E0433", "E0412", "E0425"})
    c.add("heap", "pub fn names_heap() { let _v: AnyVec<dyn None, any_vec::mem::Heap> = AnyVec::new::<u64>(); }", True, "P19:no-heap-backend",
          "without the alloc feature there is no heap backend", {"E0432", "E0433", "E0412", "E0425", "E0603"})
    c.add("dflt", "pub fn default_backend_is_not_heap() { let mut v: AnyVec = AnyVec::new::<u64>(); v.reserve(1); }", True, "P19:default-backend-not-resizable",
          "without the alloc feature the default backend cannot grow (it is not a heap)", TRAIT_CODES)
    return c


# ------------------------------------------------------------------------------------------------ driver

def run(pname, prop, tier, scratch, ctx, repo=None):
    repo = repo or factsmod.REPO
    res = RuleResult(pname)
    st = {"rule": pname, "instances": {}, "discharged": {}, "functions": 0, "samples": [], "floor": 0, "template": ""}
    if pname == "P15":
        crate = build_p15(ctx)
        inventory_check(ctx, res)
        errors, other = compile_crate(crate, scratch, repo)
        st["template"] = "trait-resolution probe matrix: assert_send/assert_sync/assert_clone, constructor and method-availability probes; verdict = compiler error present vs oracle cell"
        nfail = 0
        # added handle types: which candidate path names the type (every naming probe of that candidate compiles)
        cand_ok = {}
        for pid, pr in crate.probes.items():
            if "naming" in pr:
                g = pr["naming"]
                cand_ok[g] = cand_ok.get(g, True) and not errors.get(pid)
        chosen = {}
        for (tp, ci), ok_ in sorted(cand_ok.items(), key=lambda kv: kv[0][1]):
            if ok_ and tp not in chosen:
                chosen[tp] = ci
        for tp in {g[0] for g in cand_ok}:
            res.inst(sample={"added_handle_type": tp, "public_path_candidate": chosen.get(tp)})
            if tp in chosen:
                res.ok()
            else:
                res.fail(tp, "uncovered-type", "the added borrowing type %s cannot be named through any candidate public path: its Send/Sync cells are not probed" % tp,
                         kind="coverage-lost")
        for pid, pr in crate.probes.items():
            if "naming" in pr:
                continue
            if "group" in pr and chosen.get(pr["group"][0]) != pr["group"][1]:
                continue          # a path candidate that does not name the type
            got_err = bool(errors.get(pid, set()) & pr["codes"]) or bool(errors.get(pid))
            if pr.get("must_fail") and errors.get(pid) and not (errors.get(pid, set()) & pr["codes"]):
                f = res.fail(pr["key"].split(":", 1)[1], "wrong-error", "the probe `%s` is rejected for an unexpected reason %s: the cell is not decided"
                             % (pr["code"], sorted(errors[pid])), kind="coverage-lost")
                f.rule = "P15"
                continue
            res.inst(sample={"probe": pr["code"], "compiles": not got_err, "key": pr["key"]} if pid in ("p1", "p7", "p40") else None)
            if pr.get("must_hold") and got_err:
                res.fail(pr["key"].split(":", 1)[1], None, "%s: the probe `%s` must compile but is rejected (%s)" % (pr["desc"], pr["code"], sorted(errors[pid])))
                res.findings[-1].rule = "P15"
                nfail += 1
            elif pr.get("must_fail") and not got_err:
                f = res.fail(pr["key"].split(":", 1)[1], None, "%s: the probe `%s` must be rejected but compiles" % (pr["desc"], pr["code"]))
                f.rule = "P15"
                nfail += 1
            else:
                res.ok()
        if other:
            res.fail("<probe-crate>", "unattributed-errors", "probe crate has errors outside probes: %s" % other[:3], kind="tool-error")
        st["probe"] = {"probes": len(crate.probes), "exhaustive": True}
        floor = 1500
    elif pname == "P16":
        crate = build_p16(ctx)
        p16_row_coverage(ctx, res)
        errors, other = compile_crate(crate, scratch, repo)
        st["template"] = "borrow-checker probe matrix: method x conflict class, each failing program paired with a compiling twin"
        ids = sorted({pid[1:] for pid in crate.probes}, key=int)
        for i in ids:
            fp, tp = crate.probes["f" + i], crate.probes["t" + i]
            ferr = errors.get("f" + i, set())
            terr = errors.get("t" + i, set())
            res.inst(sample={"key": fp["key"], "failing_program": fp["code"], "errors": sorted(ferr), "twin_errors": sorted(terr)} if i in ("1", "4", "120") else None)
            key = fp["key"].split(":", 1)[1]
            if terr:
                f = res.fail(key, "twin-broken", "the conflict-free twin does not compile (%s): the probe is vacuous\n%s" % (sorted(terr), tp["code"]), kind="coverage-lost")
                f.rule = "P16"
                continue
            if ferr & fp["codes"]:
                res.ok()
            elif ferr:
                f = res.fail(key, "wrong-error", "rejected for an unexpected reason %s\n%s" % (sorted(ferr), fp["code"]), kind="coverage-lost")
                f.rule = "P16"
            else:
                f = res.fail(key, None, "%s: this program must not compile, but it does:\n%s" % (fp["desc"], fp["code"]))
                f.rule = "P16"
        if other:
            res.fail("<probe-crate>", "unattributed-errors", "probe crate has errors outside probes: %s" % other[:3], kind="tool-error")
        st["probe"] = {"probes": len(crate.probes), "pairs": len(ids), "exhaustive": True}
        floor = 150
    elif pname == "P19":
        crate = build_p19(ctx)
        errors, other = compile_crate(crate, scratch, repo, default_features=False)
        st["template"] = "no-alloc probe crate (default-features = false): full operation set on Stack compiles; naming mem::Heap does not"
        for pid, pr in crate.probes.items():
            err = errors.get(pid, set())
            res.inst(sample={"probe": pr["key"], "errors": sorted(err)})
            key = pr["key"].split(":", 1)[1]
            if pr["expect_fail"] and not err:
                f = res.fail(key, None, "%s: must not compile without the alloc feature, but does" % pr["desc"])
                f.rule = "P19"
            elif not pr["expect_fail"] and err:
                f = res.fail(key, None, "%s: does not compile without the alloc feature (%s)" % (pr["desc"], sorted(err)))
                f.rule = "P19"
            else:
                res.ok()
        if other:
            res.fail("<probe-crate>", "unattributed-errors", "probe crate has errors outside probes: %s" % other[:3], kind="tool-error")
        st["probe"] = {"probes": len(crate.probes), "exhaustive": True}
        floor = 3
    else:
        raise ValueError(pname)
    if res.instances < floor:
        res.fail("<rule>", "floor", "coverage-lost: %s ran %d probes, floor is %d" % (pname, res.instances, floor), kind="coverage-lost")
    st["instances"] = {"probe": res.instances}
    st["discharged"] = {"probe": res.discharged}
    st["samples"] = res.samples
    st["floor"] = floor
    return res, st
