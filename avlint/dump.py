"""development / --explain helper: analyse one function and print effects"""
import sys
from .facts import Facts
from .graph import Graph
from .interp import Interp, analyze_arms
from .poly import Poly, show_atom, show_path


def show(v, depth=0):
    if isinstance(v, Poly):
        return repr(v)
    if isinstance(v, tuple):
        if v and v[0] == "ptr":
            return "ptr(%s + %s : %s)" % (show_atom(v[1]), v[2], v[3])
        if v and v[0] == "ref":
            return "&" + show_path(v[1])
        if len(v) == 2 and isinstance(v[0], tuple) and isinstance(v[1], tuple) and v[0] and v[0][0] in ("P", "L", "D", "V", "AV", "A", "M"):
            return show_path(v)
        return "(" + ", ".join(show(x, depth + 1) for x in v) + ")"
    if isinstance(v, frozenset):
        return "{%d facts}" % len(v)
    return str(v)


def show_fact(f):
    if f[0] in ("ge0", "eq0", "ne0"):
        return "%s %s 0" % (f[1], {"ge0": ">=", "eq0": "==", "ne0": "!="}[f[0]])
    return show(f)


def dump(fx, path, subst=None):
    fn = fx.fn(path)
    g = Graph(fx, fn, subst or {})
    print("== %s : %d nodes, %d insts" % (path, len(g.nodes), len(g.insts)))
    for tt, I in analyze_arms(g):
        print("-- arm", tt)
        dump_interp(g, I)
    return g


def dump_interp(g, I):
    for e in I.all_effects():
        if e.kind in ("ARITH", "LEAVE", "ASSERT", "ENTER", "PTRADD", "PTR"):
            continue
        d = {k: v for k, v in e.d.items() if k not in ("line", "facts", "cinst", "ver")}
        print("  [%d.%d] %-10s %s :: %s" % (e.gid, e.idx, e.kind, e.where(), {k: show(v) for k, v in d.items()}))
        if e.kind in ("RESERVE", "USER", "MOVE_INTO", "DESTROY") and e.d.get("facts"):
            print("        facts: " + "; ".join(show_fact(f) for f in e.d["facts"]))
    for gid, u in I.unclassified.items():
        print("  UNCLASSIFIED", gid, u)
    if g.unresolved:
        print("  unresolved:", g.unresolved)
    return g, I


if __name__ == "__main__":
    fx = Facts(sys.argv[1])
    for p in sys.argv[2:]:
        dump(fx, p)
