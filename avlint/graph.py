"""Inlined control-flow graph: an entry function with local-crate callees expanded (bounded depth),
trait-method calls re-resolved once substitution makes the receiver type concrete."""
from .types import TypeCx, ty_str

MAX_DEPTH = 10

# never inlined (formatting / debug helpers are irrelevant to every rule)
NO_INLINE_PREFIX = ("core::fmt", )
NO_INLINE_DEFAULT = {"any_value::Unknown::is"}
# core combinators that do nothing but invoke the closure they are given: the closure body is expanded in place
# (`cond.then(|| e)` is `if cond { Some(e) } else { None }`, `opt.map(|x| e)` is `match opt { Some(x) => Some(e), None => None }`)
CLOSURE_COMBINATORS = {"core::bool::<impl bool>::then": "then", "core::option::Option::<T>::map": "map", "core::option::Option::<T>::and_then": "and_then",
                       "core::option::Option::<T>::filter": "filter", "core::option::Option::<T>::map_or": "map_or",
                       "core::option::Option::<T>::is_some_and": "is_some_and",
                       # `(a..b).for_each(|i| body)`: the closure body is the body of a loop over the range
                       "core::iter::Iterator::for_each": "for_each",
                       # a closure value called directly: `f(x)` is `Fn::call(&f, (x,))`
                       "core::ops::Fn::call": "call", "core::ops::FnMut::call_mut": "call", "core::ops::FnOnce::call_once": "call"}
# index of the closure among the call's arguments
CLOSURE_ARG = {"then": 1, "map": 1, "and_then": 1, "filter": 1, "map_or": 2, "call": 0, "is_some_and": 1, "for_each": 1}


class Inst:
    __slots__ = ("fn", "loff", "subst", "parent", "call_gid", "depth", "chain", "bmap", "id", "callee_json")

    def __init__(self, fn, loff, subst, parent, call_gid, depth, chain, id):
        self.fn = fn
        self.loff = loff
        self.subst = subst
        self.parent = parent
        self.call_gid = call_gid
        self.depth = depth
        self.chain = chain
        self.bmap = []
        self.id = id

    def path(self):
        return self.fn["path"]

    def chain_str(self):
        return " > ".join(self.chain)


FORWARDED_BY_MUT_REF = ("core::iter::Iterator", "core::iter::DoubleEndedIterator", "core::iter::ExactSizeIterator")


class Node:
    __slots__ = ("gid", "inst", "bb", "data", "cleanup", "succs", "callee_inst", "preds", "closure_call", "deref_self")

    def __init__(self, gid, inst, bb, data):
        self.gid = gid
        self.inst = inst
        self.bb = bb
        self.data = data
        self.cleanup = data["cleanup"]
        self.succs = []      # (gid, kind) kind in normal|unwind
        self.preds = []
        self.callee_inst = None
        self.closure_call = None
        self.deref_self = False   # the call goes through core's forwarding impl for `&mut I` (Iterator & co.): the callee is I's own method on `*self`

    def where(self):
        t = self.data["term"]
        return "%s bb%d (line %s)" % (self.inst.path(), self.bb, t.get("line"))


class Graph:
    def __init__(self, facts, entry_fn, subst=None, no_inline=None, max_depth=MAX_DEPTH, inline_filter=None):
        self.fx = facts
        self.tcx = TypeCx(facts)
        self.nodes = []
        self.insts = []
        self.nlocals = 0
        self.no_inline = set(no_inline or ()) | NO_INLINE_DEFAULT
        self.max_depth = max_depth
        self.inline_filter = inline_filter
        self.unresolved = []      # local-crate trait calls that stayed abstract
        self.entry = self._instantiate(entry_fn, subst or {}, None, None, 0, (entry_fn["path"],))
        self._link()

    # ------------------------------------------------------------------
    def resolve_callee(self, callee, env):
        """-> (fn json, callee subst env, how) or None."""
        if "indirect" in callee:
            return None
        fx, tcx = self.fx, self.tcx
        gargs = [tcx.subst(a, env) for a in callee.get("generic_args", [])]
        path = callee["path"]
        if callee.get("trait"):
            trait = callee["trait"]
            name = callee["name"]
            # number of trait-level args: from candidate impls or trait def
            cands = [im for im in fx.impls if im.get("trait") == trait]
            if not cands:
                return None
            nt = len(cands[0].get("trait_args", []))
            hit = tcx.find_impl(trait, gargs[:nt])
            fwd = False
            if hit is None and trait in FORWARDED_BY_MUT_REF and gargs and gargs[0].get("k") == "ref" and gargs[0].get("mut"):
                # `impl<I: Iterator + ?Sized> Iterator for &mut I` (core): `(&mut it).next()` / `self.len()` with `self: &mut It` run It's own method
                hit = tcx.find_impl(trait, [gargs[0]["to"]] + gargs[1:nt])
                fwd = hit is not None
            if hit is None:
                return None
            im, binds = hit
            item = None
            for it in im["items"]:
                if it["name"] == name and it["kind"].startswith("Fn"):
                    item = it
            if item is not None:
                fn = fx.fns.get(item["path"])
                if fn is None:
                    return None
                cenv = dict(binds)
                own = fn["generics"][len(im["generics"]):]
                for g, a in zip(own, gargs[nt:]):
                    if g["kind"] != "lifetime":
                        cenv[g["name"]] = a
                return fn, cenv, "impl-fwd" if fwd else "impl"
            if fwd:
                return None
            # default method of a local trait
            fn = fx.fns.get(path)
            if fn is None:
                return None
            cenv = {}
            for g, a in zip(fn["generics"], gargs):
                if g["kind"] != "lifetime":
                    cenv[g["name"]] = a
            return fn, cenv, "default"
        if not callee.get("local_crate"):
            return None
        fn = fx.fns.get(path)
        if fn is None:
            return None
        cenv = {}
        for g, a in zip(fn["generics"], gargs):
            if g["kind"] != "lifetime":
                cenv[g["name"]] = a
        return fn, cenv, "direct"

    def _instantiate(self, fn, subst, parent, call_gid, depth, chain):
        inst = Inst(fn, self.nlocals, subst, parent, call_gid, depth, chain, len(self.insts))
        self.insts.append(inst)
        self.nlocals += len(fn["locals"])
        base = len(self.nodes)
        for bi, b in enumerate(fn["blocks"]):
            n = Node(base + bi, inst, bi, b)
            self.nodes.append(n)
            inst.bmap.append(base + bi)
        # drop glue of a local value whose type has a Drop impl written in this crate but is NOT one of the crate's own handle / vector types
        # (a scope guard declared inside a function): its destructor body is expanded at the drop, so what it does on the unwind path is seen
        for bi, b in enumerate(fn["blocks"]):
            t = b["term"]
            if t["k"] != "drop" or depth + 1 > self.max_depth:
                continue
            dty = self.tcx.subst(t.get("ty", {}), subst)
            if dty.get("k") != "adt":
                continue
            a = self.fx.adts.get(dty.get("path"))
            if not a or not a.get("has_drop_impl") or a.get("reachable") or a.get("vis") == "pub":
                continue
            dimpl = [im for im in self.fx.impls if im.get("trait") == "core::ops::Drop" and im["self_ty"].get("path") == dty["path"]]
            if not dimpl or not dimpl[0]["items"]:
                continue
            dfn = self.fx.fns.get(dimpl[0]["items"][0]["path"])
            if dfn is None or chain.count(dfn["path"]) >= 1:
                continue
            denv = {}
            for g_, a_ in zip([g_ for g_ in dfn["generics"] if g_["kind"] != "lifetime"], [x for x in dty.get("args", []) if x.get("k") != "region"]):
                denv[g_["name"]] = a_
            node = self.nodes[base + bi]
            node.callee_inst = self._instantiate(dfn, denv, inst, node.gid, depth + 1, chain + (dfn["path"],))
            node.closure_call = "dropglue"
        for bi, b in enumerate(fn["blocks"]):
            t = b["term"]
            if t["k"] != "call":
                continue
            node = self.nodes[base + bi]
            callee = t["callee"]
            if "indirect" in callee:
                continue
            p = callee["path"]
            if p.startswith(NO_INLINE_PREFIX):
                continue
            comb = CLOSURE_COMBINATORS.get(p)
            if comb == "for_each":
                st0 = self.tcx.subst(callee.get("self_ty", {}), subst) if callee.get("self_ty") else {}
                if not ty_str(st0).startswith(("core::ops::Range<", "core::iter::Rev<core::ops::Range<")):
                    comb = None
            if comb and depth + 1 <= self.max_depth:
                gargs = [self.tcx.subst(a, subst) for a in callee.get("generic_args", [])]
                cl = [a for a in gargs if a.get("k") == "closure"]
                if not cl:
                    # Fn::call(&closure, ..): the receiver type is a reference to the closure
                    cl = [a["to"] for a in gargs if a.get("k") == "ref" and a.get("to", {}).get("k") == "closure"]
                cfn = self.fx.fns.get(cl[0]["path"]) if cl else None
                owner = inst
                while cfn is not None and owner is not None and not cl[0]["path"].startswith(owner.fn["path"] + "::{closure"):
                    owner = owner.parent
                if cfn is not None and owner is not None and chain.count(cfn["path"]) < 2:
                    node.callee_inst = self._instantiate(cfn, owner.subst, inst, node.gid, depth + 1, chain + (cfn["path"],))
                    node.closure_call = comb
                continue
            r = self.resolve_callee(callee, subst)
            if r is None:
                if callee.get("trait") and (callee.get("local_crate") or callee["trait"] in self.fx.traits):
                    self.unresolved.append((node.gid, callee["path_args"]))
                continue
            cfn, cenv, how = r
            cp = cfn["path"]
            # a generic helper may legitimately occur twice on one call chain with different arguments (a dispatch helper nested in its own closure);
            # real recursion is cut at the second re-entry
            if depth + 1 > self.max_depth or chain.count(cp) >= 2 or cp in self.no_inline:
                continue
            if self.inline_filter and not self.inline_filter(cfn, callee, inst):
                continue
            node.callee_inst = self._instantiate(cfn, cenv, inst, node.gid, depth + 1, chain + (cp,))
            node.deref_self = how == "impl-fwd"
        return inst

    # ------------------------------------------------------------------
    def unwind_target(self, inst, u):
        """graph id reached when a call/drop/assert inside `inst` unwinds with action u."""
        if isinstance(u, int):
            return inst.bmap[u]
        if u == "continue" or u is None:
            # propagate to the caller of this instance
            while inst.parent is not None:
                cnode = self.nodes[inst.call_gid]
                cu = cnode.data["term"].get("unwind")
                if isinstance(cu, int):
                    return inst.parent.bmap[cu]
                if cu in ("unreachable", "terminate"):
                    return None
                inst = inst.parent
            return None
        return None

    def _link(self):
        for n in self.nodes:
            t = n.data["term"]
            k = t["k"]
            inst = n.inst
            if k == "drop" and n.callee_inst is not None:
                n.succs.append((n.callee_inst.bmap[0], "normal"))
                ut = self.unwind_target(inst, t.get("unwind"))
                if ut is not None:
                    n.succs.append((ut, "unwind"))
            elif k == "call" and n.callee_inst is not None:
                n.succs.append((n.callee_inst.bmap[0], "normal"))
                if n.closure_call:
                    # the combinator may also skip the closure (false / None)
                    for tg in t.get("targets", []):
                        n.succs.append((inst.bmap[tg], "normal"))
            elif k in ("goto", "switch", "assert", "drop", "call"):
                for tg in t.get("targets", []):
                    n.succs.append((inst.bmap[tg], "normal"))
                if k in ("assert", "drop", "call"):
                    ut = self.unwind_target(inst, t.get("unwind"))
                    if ut is not None:
                        n.succs.append((ut, "unwind"))
            elif k == "return":
                if inst.parent is not None:
                    cnode = self.nodes[inst.call_gid]
                    if cnode.closure_call == "for_each":
                        n.succs.append((cnode.gid, "normal"))      # next iteration
                    else:
                        for tg in cnode.data["term"].get("targets", []):
                            n.succs.append((inst.parent.bmap[tg], "normal"))
            elif k == "resume":
                if inst.parent is not None:
                    ut = self.unwind_target(inst, "continue")
                    if ut is not None:
                        n.succs.append((ut, "unwind"))
        # dedupe
        for n in self.nodes:
            seen = set()
            s2 = []
            for s in n.succs:
                if s not in seen:
                    seen.add(s)
                    s2.append(s)
            n.succs = s2
        for n in self.nodes:
            for (s, kind) in n.succs:
                self.nodes[s].preds.append((n.gid, kind))

    # ------------------------------------------------------------------ CFG utilities
    def rpo(self, normal_only=False):
        seen = set()
        order = []
        stack = [(self.entry.bmap[0], 0)]
        seen.add(self.entry.bmap[0])
        # iterative DFS post-order
        it = {}
        while stack:
            g, _ = stack[-1]
            succs = [s for (s, k) in self.nodes[g].succs if not (normal_only and k != "normal")]
            i = it.get(g, 0)
            if i < len(succs):
                it[g] = i + 1
                s = succs[i]
                if s not in seen:
                    seen.add(s)
                    stack.append((s, 0))
            else:
                order.append(g)
                stack.pop()
        order.reverse()
        return order

    def dominators(self, normal_only=True):
        """immediate dominators over (normal) edges from the entry: dict gid -> idom gid."""
        order = self.rpo(normal_only)
        idx = {g: i for i, g in enumerate(order)}
        entry = order[0]
        idom = {entry: entry}
        changed = True
        while changed:
            changed = False
            for g in order[1:]:
                preds = [p for (p, k) in self.nodes[g].preds if p in idom and p in idx and not (normal_only and k != "normal")]
                if not preds:
                    continue
                new = preds[0]
                for p in preds[1:]:
                    a, b = p, new
                    while a != b:
                        while idx[a] > idx[b]:
                            a = idom[a]
                        while idx[b] > idx[a]:
                            b = idom[b]
                    new = a
                if idom.get(g) != new:
                    idom[g] = new
                    changed = True
        return idom

    def dominates(self, idom, a, b):
        """a dominates b"""
        if b not in idom:
            return False
        while True:
            if a == b:
                return True
            nb = idom[b]
            if nb == b:
                return False
            b = nb

    def reachable_from(self, g, normal_only=True, avoid=None):
        seen = set()
        st = [g]
        while st:
            x = st.pop()
            for (s, k) in self.nodes[x].succs:
                if normal_only and k != "normal":
                    continue
                if avoid and s in avoid:
                    continue
                if s not in seen:
                    seen.add(s)
                    st.append(s)
        return seen
