"""Rule infrastructure: analysis context (cached graphs/interpretations), findings, rule results."""
import time
from .facts import Facts
from .graph import Graph
from .interp import Interp, analyze_arms, implies, cmp_fact, as_poly
from .poly import Poly
from .types import ty_str
from . import canon


class Finding:
    def __init__(self, rule, func, role, msg, span=None, detail=None, kind="violation"):
        self.rule = rule
        self.func = func
        self.role = role
        self.msg = msg
        self.span = span
        self.detail = detail or {}
        self.kind = kind
        self.configs = []

    @property
    def key(self):
        k = "%s:%s" % (self.rule, canon.canon_str(self.func))
        if self.role:
            k += ":" + canon.canon_str(self.role)
        return k

    def to_json(self):
        return {"key": self.key, "rule": self.rule, "function": self.func, "role": self.role, "kind": self.kind,
                "message": self.msg, "span": self.span, "detail": self.detail, "configs": self.configs}


class RuleResult:
    def __init__(self, rule):
        self.rule = rule
        self.findings = []
        self.instances = 0       # rule instances (sites / obligations) examined
        self.discharged = 0
        self.samples = []
        self.functions = set()
        self.notes = []

    def inst(self, n=1, sample=None, func=None):
        self.instances += n
        if sample is not None and len(self.samples) < 6:
            self.samples.append(sample)
        if func:
            self.functions.add(func)

    def ok(self, n=1):
        self.discharged += n

    def fail(self, func, role, msg, span=None, detail=None, kind="violation"):
        f = Finding(self.rule, func, role, msg, span, detail, kind)
        # dedupe by key
        for g in self.findings:
            if g.key == f.key:
                return g
        self.findings.append(f)
        return f

    def coverage_lost(self, func, what):
        return self.fail(func, "coverage", "coverage-lost: " + what, kind="coverage-lost")


class Ctx:
    def __init__(self, facts_path, config):
        self.fx = Facts(facts_path, config)
        self.config = config
        self._arms = {}
        self._graphs = {}
        self.p2c, self.c2p = canon.build(self.fx)
        canon.register(self.p2c)

    def P(self, cid):
        """def path of a canonical function id (or of a def path), None if absent"""
        if cid in self.fx.fns:
            return cid
        return self.c2p.get(cid)

    def fn(self, path):
        p = self.P(path)
        return self.fx.fn(p) if p else None

    def graph(self, path, subst=None, **kw):
        key = (path, repr(sorted((subst or {}).items(), key=lambda kv: kv[0])) if subst else "", repr(sorted(kw.items())))
        g = self._graphs.get(key)
        if g is None:
            fn = self.fn(path)
            if fn is None:
                return None
            g = Graph(self.fx, fn, subst or {}, **kw)
            self._graphs[key] = g
        return g

    def arms(self, path, subst=None, entry_facts=None, **kw):
        """[(type-test assignment, Interp)] for the function, inlined"""
        key = (path, repr(sorted((subst or {}).items(), key=lambda kv: kv[0])) if subst else "", repr(sorted(kw.items())),
               repr(sorted(entry_facts, key=repr)) if entry_facts else "")
        r = self._arms.get(key)
        if r is None:
            g = self.graph(path, subst, **kw)
            if g is None:
                return None
            r = analyze_arms(g, entry_facts=entry_facts)
            self._arms[key] = r
        return r

    def tparam(self, path, n=-1):
        """name of the n-th type parameter of a function (impl parameters first, then the function's own): rules never spell parameter names"""
        f = self.fn(path)
        if f is None:
            return None
        tps = [g["name"] for g in f.get("generics", []) if g.get("kind") == "type" and not g["name"].startswith("<")]
        try:
            return tps[n]
        except IndexError:
            return None

    def span_of(self, path):
        f = self.fn(path)
        if f:
            return "%s:%d" % (f["span"]["file"], f["span"]["line"])
        return None

    # ---------------------------------------------------------------- vocabulary (anchors)
    def public_safe_fns(self):
        out = []
        for f in self.fx.fn_list:
            if f.get("kind") not in ("Fn", "AssocFn"):
                continue
            if f.get("unsafe"):
                continue
            if self.is_public(f):
                out.append(f)
        return out

    def is_public(self, f):
        if f.get("kind") not in ("Fn", "AssocFn"):
            return False
        if f.get("impl_trait"):
            # trait impl method: public iff the self type is a reachable local ADT or reference to one
            st = f.get("impl_self_ty", {})
            while st.get("k") == "ref":
                st = st["to"]
            if st.get("k") == "adt":
                a = self.fx.adts.get(st["path"])
                return bool(a and a.get("reachable"))
            return False
        return bool(f.get("reachable")) and f.get("vis") == "pub"


def arm_name(tt):
    if not tt:
        return "any"
    return "+".join("erased" if v else "typed" for k, v in sorted(tt.items()))


def is_len_path(p):
    """path of the `len` field of an AnyVecRaw object"""
    root, proj = p
    return bool(proj) and proj[-1] == "len" and (root[0] in ("V", "P", "D", "A", "L"))


def vec_of_len_path(p):
    return (p[0], p[1][:-1])


def short_fn(path):
    return path
