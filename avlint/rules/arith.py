"""R-ARITH (caller-controlled size arithmetic is checked in every build profile), R-OVERLAP (copy primitive vs direction),
R-UNITS (dimensional consistency of offsets, lengths and counts)."""
from ..core import RuleResult, arm_name, is_len_path
from ..poly import Poly
from ..interp import implies, cmp_fact, as_poly, Tree
from .util import *
from .safety import entry_points, len_at


# ------------------------------------------------------------------------------------------------ R-ARITH

def _source_atoms(p):
    """atoms standing for unbounded caller input"""
    out = []
    for a in as_poly(p).atoms():
        if not isinstance(a, tuple) or not a:
            continue
        if a[0] in ("param", "cparam", "userlen", "usersize_hint"):
            out.append(a)
        elif a[0] == "init" and _bound_derived(a):
            out.append(a)
        elif a[0] in ("max", "min", "div"):
            for x in a[1:]:
                if isinstance(x, Poly):
                    out += _source_atoms(x)
    return out


def _is_stride(x):
    x = as_poly(x)
    if len(x.m) != 1:
        return False
    (k, v), = x.m.items()
    return v == 1 and len(k) == 1 and isinstance(k[0], tuple) and k[0][0] in ("STRIDE", "SIZEOF")


def _bound_derived(a):
    r = repr(a)
    return "'bound'" in r


def _bounded(facts, t, lens_caps):
    """t <= some LEN/CAP-like quantity is known"""
    for q in lens_caps:
        if implies(facts, cmp_fact("Le", t, q)):
            return True
    return False


def r_arith(ctx):
    res = RuleResult("R-ARITH")
    sites = {}
    for fpath, subst, ef, label in entry_points(ctx):
        f = ctx.fn(fpath)
        # parameters of unsafe entry points are bounded by the caller's safety contract; such sites are judged from the safe entries
        unsafe_entry = bool(f.get("unsafe"))
        for tt, I in ctx.arms(fpath, subst=subst, entry_facts=ef) or []:
            for e in I.all_effects(("ARITH",)):
                op = e["op"]
                a, b = e["a"], e["b"]
                how = e["how"]
                if how and how.startswith("saturating_") and (_source_atoms(a) + _source_atoms(b)) and not unsafe_entry:
                    key = (e.node.inst.path(), e.get("line"), op)
                    sites.setdefault(key, []).append((False, fpath, e, "the operation saturates instead of panicking: an unrepresentable request is silently clamped"))
                    continue
                if how and (how.startswith("checked_") or how.startswith("saturating_")):
                    # explicit checked arithmetic: fine if the None case panics or is handled (unwrap/expect/map_or ...): any use is explicit
                    key = (e.node.inst.path(), e.get("line"), op)
                    sites.setdefault(key, []).append((True, fpath, e, "explicitly checked (%s)" % how))
                    continue
                srcs = _source_atoms(a) + _source_atoms(b)
                if op == "Mul" and any(_is_stride(x) for x in (a, b)):
                    # slot * stride: a pointer offset inside the reservation; slots are bounded by R-BOUNDS / R-FORMULA, not here
                    continue
                if unsafe_entry:
                    srcs = [s for s in srcs if s[0] != "param"]
                if not srcs:
                    continue
                key = (e.node.inst.path(), e.get("line"), op)
                facts = e["facts"]
                ok = False
                why = ""
                if op == "Sub":
                    ok = implies(facts, cmp_fact("Le", b, a))
                    why = "subtrahend <= minuend is %sestablished" % ("" if ok else "not ")
                else:
                    # bounded operands: every caller-controlled factor is known to be <= a length/capacity of the vector
                    lens_caps = []
                    for ff in facts:
                        if ff[0] in ("ge0", "eq0"):
                            for at in ff[1].atoms():
                                if isinstance(at, tuple) and at and (at[0] == "CAP" or (at[0] == "init" and at[1][1] and at[1][1][-1] in ("len", "size", "original_len", "last_index", "end", "index"))):
                                    lens_caps.append(Poly.atom(at))
                    tainted_ops = [x for x in (a, b) if _source_atoms(x)]
                    ok = all(_bounded(facts, x, lens_caps) for x in tainted_ops)
                    why = "operands bounded by a vector length/capacity" if ok else "no bound on the caller-controlled operand; the check is %s" % (
                        "only the debug-profile overflow assertion" if how == "debug-assert" else "absent")
                sites.setdefault(key, []).append((ok, fpath, e, why))
    ordinal = {}
    for key, lst in sorted(sites.items(), key=lambda kv: (kv[0][0], kv[0][1] or 0, kv[0][2])):
        fn, line, op = key
        base = "%s:%s" % (op.lower(), _operand_key(lst[0][2]))
        ordinal[(fn, base)] = ordinal.get((fn, base), 0) + 1
        nth = ordinal[(fn, base)]
        res.inst(sample={"site": "%s line %s" % (fn, line), "op": op, "operands": "%s , %s" % (lst[0][2]["a"], lst[0][2]["b"]), "verdict": lst[0][3]}, func=fn)
        bad = [x for x in lst if not x[0]]
        if not bad:
            res.ok()
            continue
        ok, entry, e, why = bad[0]
        res.fail(fn, base + ("#%d" % nth if nth > 1 else ""), "%s of caller-controlled quantities (%s %s %s) can overflow in release builds: %s (reached from %s)"
                 % (op, e["a"], {"Add": "+", "Mul": "*", "Sub": "-"}[op], e["b"], why, entry), span=span_of_effect(e))
    return res


def _operand_key(e):
    """stable description of the tainted operand (no line numbers)"""
    names = []
    for a in _source_atoms(e["a"]) + _source_atoms(e["b"]):
        if a[0] == "param":
            names.append("arg%d" % a[1])
        elif a[0] == "cparam":
            names.append(str(a[1]))
        elif a[0] in ("userlen",):
            names.append("replace_len")
        else:
            r = repr(a)
            names.append("start_bound" if "start_bound" in r else ("end_bound" if "end_bound" in r else "bound"))
    return "+".join(sorted(set(names))) or "?"


# ------------------------------------------------------------------------------------------------ R-OVERLAP

def r_overlap(ctx):
    res = RuleResult("R-OVERLAP")
    seen = set()
    for fpath, subst, ef, label in entry_points(ctx):
        for tt, I in ctx.arms(fpath, subst=subst, entry_facts=ef) or []:
            an = arm_name(tt)
            # (a) non-overlapping primitives
            for e in I.all_effects(("COPY", "SWAP")):
                prim = e["prim"]
                if prim not in ("copy_nonoverlapping", "swap_nonoverlapping"):
                    continue
                a, b = (e["src"], e["dst"]) if e.kind == "COPY" else (e["a"], e["b"])
                key = (e.node.inst.path(), e.get("line"), fpath, an)
                if key in seen:
                    continue
                seen.add(key)
                res.inst(sample={"site": e.where(), "prim": prim, "entry": fpath}, func=e.node.inst.path())
                dj = _disjoint(e, a, b)
                if dj is None:
                    res.ok()
                    note = "%s at %s: one operand was lost at a loop join - not decided" % (prim, e.where())
                    if note not in res.notes:
                        res.notes.append(note)
                elif dj:
                    res.ok()
                else:
                    res.fail(e.node.inst.path(), "nonoverlapping/%s" % an, "%s is used on two ranges of the same storage without a dominating proof that they are distinct "
                             "(src %s, dst %s; reached from %s)" % (prim, a, b, fpath), span=span_of_effect(e))
            # (b) crate-local byte loops: direction vs. delta
            for rn in I.all_effects(("RANGE_NEXT",)):
                inst = rn.node.inst
                fn = inst.fn
                ins = fn.get("sig", {}).get("inputs", [])
                if not (len(ins) >= 3 and ins[0].get("k") == "ptr" and ins[1].get("k") == "ptr"):
                    continue
                # a byte store through a pointer inside the same instance
                stores = [s for s in effects_in(I, inst, ("STORE",)) if s["path"][0][0] in ("M", "D")]
                if not stores:
                    continue
                st = I.in_state.get(inst.bmap[0])
                src = I.load(st, (("L", inst.loff + 1), ()), ins[0])
                dst = I.load(st, (("L", inst.loff + 2), ()), ins[1])
                if ins[0].get("mut") and not ins[1].get("mut"):
                    src, dst = dst, src
                key = (inst.path(), rn.get("line"), repr(src), repr(dst))
                if key in seen:
                    continue
                seen.add(key)
                ps, pd = ptr_parts(src), ptr_parts(dst)
                res.inst(sample={"loop": inst.path(), "direction": rn["direction"], "src": str(src), "dst": str(dst), "entry": fpath}, func=inst.path())
                if not ps or not pd or ps[0] != pd[0]:
                    res.ok()      # different objects
                    continue
                delta = pd[1] - ps[1]
                direction = rn["direction"]
                # a dominating pointer comparison makes the direction safe
                guard = _ptr_order_fact(rn["facts"], src, dst)
                if direction == "asc":
                    safe = (-delta).nonneg_coeffs() or guard == "dst<=src"
                else:
                    safe = delta.nonneg_coeffs() or guard == "dst>src"
                if safe:
                    res.ok()
                    _check_loop_order(res, I, inst, rn, src, dst, fpath, an, seen)
                else:
                    caller = inst.parent.path() if inst.parent else fpath
                    res.fail(caller, "byte-loop-direction/%s" % an,
                             "%s copies bytes with an %s index loop while the destination lies %s the source inside the same storage (dst - src = %s): "
                             "overlapping bytes are overwritten before they are read" % (inst.path(), "ascending" if direction == "asc" else "descending",
                                                                                       "above" if direction == "asc" else "below", delta), span=span_of_effect(rn))
            # (c) element-wise copy loops written with ptr::read / ptr::write inside one storage: same direction argument
            for rn in I.all_effects(("RANGE_NEXT",)):
                loop = {g for g in I.reachable_from(rn.gid) if rn.gid in I.reachable_from(g)} | {rn.gid}
                reads = [e for e in I.all_effects(("READ",)) if e.gid in loop]
                writes = [e for e in I.all_effects(("WRITE",)) if e.gid in loop]
                for w in writes:
                    pd = ptr_parts(w["dst"])
                    if not pd or base_mem(pd[0]) is None:
                        continue
                    for r in reads:
                        ps = ptr_parts(r["src"])
                        if not ps or ps[0] != pd[0]:
                            continue
                        key = (rn.node.inst.path(), "rw-loop", rn.get("line"), fpath, an)
                        if key in seen:
                            continue
                        seen.add(key)
                        res.inst(sample={"loop": rn.node.inst.path(), "direction": rn["direction"], "read": str(r["src"]), "write": str(w["dst"]), "entry": fpath},
                                 func=rn.node.inst.path())
                        delta = pd[1] - ps[1]
                        if any("rangenext" in repr(a) or (isinstance(a, tuple) and a and a[0] == "phi") for a in delta.atoms()):
                            res.fail(rn.node.inst.path(), "unclassified-copy-loop/%s" % an, "an element-wise copy loop of %s reads and writes the same storage at offsets "
                                     "whose difference depends on the loop index: not shown safe for overlapping ranges" % rn.node.inst.path(),
                                     span=span_of_effect(w), kind="coverage-lost")
                            continue
                        guard = _ptr_order_fact(rn["facts"], r["src"], w["dst"])
                        if rn["direction"] == "asc":
                            safe = (-delta).nonneg_coeffs() or guard == "dst<=src"
                        else:
                            safe = delta.nonneg_coeffs() or guard == "dst>src"
                        if safe:
                            res.ok()
                        else:
                            res.fail(rn.node.inst.path(), "element-loop-direction/%s" % an,
                                     "%s moves elements inside one storage with an %s index loop while the destination may lie %s the source (dst - src = %s): "
                                     "overlapping elements are overwritten before they are read (ptr::copy handles both directions)"
                                     % (rn.node.inst.path(), "ascending" if rn["direction"] == "asc" else "descending",
                                        "above" if rn["direction"] == "asc" else "below", delta), span=span_of_effect(w))
    return res


def _loop_byte_range(I, rn):
    """byte interval [lo, hi) of the helper's buffers touched by the index loop of RANGE_NEXT effect rn, or None"""
    rng = rn["range"]
    if not (isinstance(rng, tuple) and rng and rng[0] == "range"):
        return None
    lo, hi = as_poly(rng[1]), as_poly(rng[2])
    loop = I.reachable_from(rn.gid)
    loop = {g for g in loop if rn.gid in I.reachable_from(g)} | {rn.gid}
    scales = set()
    for e in I.all_effects(("PTRADD",)):
        if e.gid not in loop or e.node.inst is not rn.node.inst:
            continue
        n = as_poly(e["n"])
        idx = [a for a in n.atoms() if "rangenext" in repr(a) and repr(rn.gid) in repr(a)]
        if not idx:
            idx = [a for a in n.atoms() if "rangenext" in repr(a) or (isinstance(a, tuple) and a and a[0] == "phi")]
        if not idx:
            continue
        q = div_atom(n, idx[0])
        if q is None:
            return None
        unit = Poly.const(1) if e["ety"] in BYTE_TYPES else Poly.atom(("SIZEOF", e["ety"]))
        scales.add(q * unit)
    if len(scales) != 1:
        return None
    c = list(scales)[0]
    return lo * c, hi * c


def _check_loop_order(res, I, inst, rn, src, dst, fpath, an, seen):
    """several index loops under the same pointer-order guard must visit their byte intervals in the direction that is safe for that guard"""
    guard = _ptr_order_fact(rn["facts"], src, dst)
    sibs = [e for e in effects_in(I, inst, ("RANGE_NEXT",)) if e.node.inst is inst and _ptr_order_fact(e["facts"], src, dst) == guard and e is not rn]
    if not sibs:
        return
    key = (inst.path(), "loop-order", guard, repr(src), repr(dst))
    if key in seen:
        return
    seen.add(key)
    loops = sorted([rn] + sibs, key=lambda e: e.gid)
    # order by dominance
    idom = I.dominators()
    ordered = []
    for e in loops:
        ordered.append(e)
    ordered.sort(key=lambda e: sum(1 for o in loops if o is not e and I.g.dominates(idom, o.gid, e.gid)))
    res.inst(sample={"helper": inst.path(), "guard": guard, "loops": len(ordered), "entry": fpath}, func=inst.path())
    ranges = [_loop_byte_range(I, e) for e in ordered]
    caller = inst.parent.path() if inst.parent else fpath
    if any(r is None for r in ranges):
        res.fail(inst.path(), "unclassified-copy-loop/%s" % an, "a copy loop of %s cannot be classified (index range / stride unknown); overlapping copies are not shown safe" % inst.path(),
                 span=span_of_effect(rn), kind="coverage-lost")
        return
    ascending = guard in ("dst<=src", None) and rn["direction"] == "asc"
    for (a, b) in zip(ranges, ranges[1:]):
        if ascending:
            good = (b[0] - a[1]).nonneg_coeffs()       # next interval starts at or after the end of the previous one
        else:
            good = (a[0] - b[1]).nonneg_coeffs()       # next interval ends at or before the start of the previous one
        if not good:
            res.fail(inst.path(), "copy-loop-order/%s" % an,
                     "%s copies the byte intervals [%s, %s) and then [%s, %s) in the branch where the regions overlap with %s: the later loop reads bytes the earlier one has already "
                     "overwritten" % (inst.path(), a[0], a[1], b[0], b[1], "dst above src" if not ascending else "dst below src"), span=span_of_effect(ordered[1]))
            return
    res.ok()


def _ptr_order_fact(facts, src, dst):
    for f in facts:
        if f[0] in ("true", "isfalse") and isinstance(f[1], tuple) and f[1] and f[1][0] == "pcmp":
            op, a, b = f[1][1], f[1][2], f[1][3]
            truth = f[0] == "true"
            rel = None
            if _same_ptr(a, dst) and _same_ptr(b, src):
                rel = op
            elif _same_ptr(a, src) and _same_ptr(b, dst):
                rel = {"Le": "Ge", "Lt": "Gt", "Ge": "Le", "Gt": "Lt"}.get(op)
            if rel is None:
                continue
            if not truth:
                rel = {"Le": "Gt", "Lt": "Ge", "Ge": "Lt", "Gt": "Le"}.get(rel)
            if rel in ("Le", "Lt"):
                return "dst<=src"
            if rel in ("Gt",):
                return "dst>src"
            if rel == "Ge":
                return "dst>=src"
    return None


def _same_ptr(a, b):
    pa, pb = ptr_parts(a), ptr_parts(b)
    if pa and pb:
        return pa[0] == pb[0] and pa[1] == pb[1]
    return a == b


def _is_local_ref(x):
    return isinstance(x, tuple) and x and x[0] == "ref" and x[1][0][0] in ("L", "A")


def _is_local_buf(x):
    pp = ptr_parts(x)
    return pp is not None and isinstance(pp[0], tuple) and pp[0] and pp[0][0] == "FIELD" and pp[0][1][0][0] in ("L",)


def _is_out_param(x):
    pp = ptr_parts(x)
    return pp is not None and isinstance(pp[0], tuple) and pp[0] and pp[0][0] == "param"


def _disjoint(e, a, b):
    pa, pb = ptr_parts(a), ptr_parts(b)
    if pa and pb and pa[0] != pb[0]:
        return True     # different provenance roots (other object, external buffer, local)
    if _is_local_buf(a) or _is_local_buf(b) or _is_local_ref(a) or _is_local_ref(b):
        return True     # a value owned by the frame cannot lie inside the vector's storage
    if (_is_out_param(a) or _is_out_param(b)) and e.node.inst.fn.get("unsafe") is not False:
        # raw out-pointer parameter of an unsafe fn: non-overlap is the documented caller obligation (`out must not overlap self`)
        if I_entry_unsafe(e):
            return True
    if (pa is None) != (pb is None):
        # one side is an opaque pointer (handle field / parameter): accept only with a dominating inequality test
        pass
    for f in e["facts"]:
        if f[0] in ("true", "isfalse") and isinstance(f[1], tuple) and f[1] and f[1][0] == "pcmp":
            op, x, y = f[1][1], f[1][2], f[1][3]
            ne = (op == "Ne" and f[0] == "true") or (op == "Eq" and f[0] == "isfalse")
            if ne and ((_same_ptr(x, a) and _same_ptr(y, b)) or (_same_ptr(x, b) and _same_ptr(y, a))):
                return True
    if pa and pb and pa[0] == pb[0] and e.get("n") is not None:
        # same storage, offsets k1 x size and k2 x size, count = size: distinct whole slots when k1 != k2 is a dominating fact
        n = as_poly(e["n"])
        ety = e.get("ety")
        nbytes = n if ety in BYTE_TYPES else n * Poly.atom(("SIZEOF", ety))
        q = _divide(as_poly(pb[1]) - as_poly(pa[1]), nbytes)
        if q is not None and implies(e["facts"], ("ne0", _canon_sign(q))):
            return True
    if pa is None and pb is None:
        # both opaque and not the same term: parameters of a helper, judged at its callers
        return a != b and not (isinstance(a, tuple) and isinstance(b, tuple) and a[:1] == ("init",) and b[:1] == ("init",))
    if pa is None or pb is None:
        opaque = a if pa is None else b
        if isinstance(opaque, tuple) and opaque and opaque[0] == "phi":
            return None       # a pointer the analysis lost at a loop join: not decided (no alarm, listed in the evidence)
        # out-parameter supplied by the caller of a safe-contract function (`out must not overlap self`)
        return isinstance(opaque, tuple) and opaque and (opaque[0] == "ptr" or opaque[0] == "param")
    return False


def _divide(p, d):
    """p / d when d is a single monomial dividing every monomial of p exactly, else None"""
    if len(d.m) != 1:
        return None
    (dk, dc), = d.m.items()
    out = {}
    for k, v in p.m.items():
        rest = list(k)
        for a in dk:
            if a in rest:
                rest.remove(a)
            else:
                return None
        if v % dc:
            return None
        out[tuple(rest)] = v // dc
    return Poly(out)


def _canon_sign(p):
    from ..interp import canon_sign
    return canon_sign(p)


def I_entry_unsafe(e):
    inst = e.node.inst
    while inst.parent is not None:
        inst = inst.parent
    return bool(inst.fn.get("unsafe"))


# ------------------------------------------------------------------------------------------------ R-UNITS

def _units(p):
    """set of stride-degrees of the monomials (0 = elements, 1 = bytes)"""
    degs = set()
    for k in as_poly(p).m:
        d = sum(1 for a in k if isinstance(a, tuple) and a and a[0] in ("STRIDE", "SIZEOF", "VSIZE", "lsize"))
        degs.add(d)
    return degs


BYTE_TYPES = ("u8", "core::mem::MaybeUninit<u8>", "i8")


def _counter_unit(I, term):
    """term is a bare loop counter (a phi, possibly +/- a constant): -> 1 (bytes) / 0 (elements) from the bound it is compared with in a loop test,
    "unknown" if that bound is a bare parameter, None if term is not a bare counter or no comparison is found"""
    p = as_poly(term)
    phis = [a for a in p.atoms() if isinstance(a, tuple) and a and a[0] == "phi"]
    if len(phis) != 1 or any(len(k) > 1 or (len(k) == 1 and k[0] != phis[0]) for k in p.m) or p.m.get((phis[0],)) != 1:
        return None
    phi = phis[0]
    verdict = None
    for sw in I.all_effects(("SWITCH",)):
        d = sw["discr"]
        dd = d[1] if isinstance(d, tuple) and d and d[0] == "not" else d
        if not (isinstance(dd, tuple) and dd and dd[0] == "cmp"):
            continue
        a, b = as_poly(dd[2]), as_poly(dd[3])
        for x, y in ((a, b), (b, a)):
            if phi in set(x.atoms()) and phi not in set(y.atoms()):
                if y.is_const():
                    continue      # `i > 0`: says nothing about the unit
                if any(isinstance(t, tuple) and t and t[0] == "param" for t in y.atoms()) and _units(y) == {0}:
                    verdict = verdict or "unknown"
                    continue
                u = _units(y)
                if u == {1}:
                    return 1
                if u == {0}:
                    return 0
    if verdict is None:
        # a count-down counter (`while i > 0 { i -= 1; .. }`): the unit of its initial value
        for (pg, kind) in I.g.nodes[phi[1]].preds:
            v0 = I.out_value(pg, phi[2], phi[1])
            if v0 is not None and phi not in set(as_poly(v0).atoms()):
                y = as_poly(v0)
                if y.is_const():
                    continue
                if any(isinstance(t, tuple) and t and t[0] == "param" for t in y.atoms()) and _units(y) == {0}:
                    verdict = "unknown"
                elif _units(y) == {1}:
                    return 1
                elif _units(y) == {0}:
                    return 0
    return verdict


def r_units(ctx):
    res = RuleResult("R-UNITS")
    seen = set()

    def judge(e, what, term, want, fn, an):
        key = (fn, e.get("line"), what)
        if key in seen:
            return
        seen.add(key)
        res.inst(sample={"site": e.where(), "sink": what, "term": str(term), "required": "BYTES" if want == 1 else "ELEMS"}, func=fn)
        p = as_poly(term)
        if not p.m:
            res.ok()
            return
        degs = _units(p)
        if degs == {want}:
            res.ok()
            return
        if p.is_const() and want == 1:
            # literal byte counts (e.g. copy_bytes threshold) are fine
            res.ok()
            return
        res.fail(fn, "%s" % what, "%s is %s but the sink requires %s: %s" % (
            what, "a mix of bytes and elements" if len(degs) > 1 else ("in ELEMENTS" if degs == {0} else "in BYTES (stride-degree %s)" % sorted(degs)),
            "BYTES (element count x stride)" if want == 1 else "ELEMENTS", p), span=span_of_effect(e))

    for fpath, subst, ef, label in entry_points(ctx):
        for tt, I in ctx.arms(fpath, subst=subst, entry_facts=ef) or []:
            an = arm_name(tt)
            byte_loop_insts = set()
            for rn in I.all_effects(("RANGE_NEXT",)):
                byte_loop_insts.add(rn.node.inst.id)
            for e in I.all_effects(("PTRADD", "COPY", "VIEW", "DESTROY", "CLONE", "RESERVE", "MOVE_INTO", "LAYOUT_NEW")):
                fn = e.node.inst.path()
                if e.node.inst.id in byte_loop_insts and e.kind == "PTRADD":
                    continue     # byte-indexed loop body
                if e.kind == "PTRADD":
                    pp = ptr_parts(e["base"])
                    into_storage = pp is not None and base_mem(pp[0]) is not None
                    if not into_storage:
                        continue
                    cu = _counter_unit(I, e["n"])
                    if cu == "unknown":
                        continue     # a loop counter bounded by a bare parameter (a helper analysed on its own): its unit is its callers' business
                    if cu is not None:
                        # a loop counter has the unit of the bound it is compared with
                        want = 1 if e["ety"] in BYTE_TYPES else 0
                        res.inst(sample={"site": e.where(), "sink": "pointer-offset", "term": str(e["n"]), "counter_unit": "BYTES" if cu == 1 else "ELEMS"}, func=fn)
                        if cu == want:
                            res.ok()
                        else:
                            res.fail(fn, "pointer-offset", "pointer-offset is the loop counter %s, which counts %s, but the sink requires %s" % (
                                e["n"], "BYTES" if cu == 1 else "ELEMENTS", "BYTES (element count x stride)" if want == 1 else "ELEMENTS"), span=span_of_effect(e))
                        continue
                    judge(e, "pointer-offset", e["n"], 1 if e["ety"] in BYTE_TYPES else 0, fn, an)
                elif e.kind == "COPY":
                    if slot_of(e["src"]) is None and slot_of(e["dst"]) is None:
                        continue
                    judge(e, "copy-length", e["n"], 1 if e["ety"] in BYTE_TYPES else 0, fn, an)
                elif e.kind == "VIEW":
                    if slot_of(e["ptr"]) is None and not (ptr_parts(e["ptr"]) and base_mem(ptr_parts(e["ptr"])[0])):
                        continue
                    judge(e, "slice-length", e["n"], 1 if e["ety"] in BYTE_TYPES else 0, fn, an)
                    pp = ptr_parts(e["ptr"])
                    if pp and pp[1].m:
                        judge(e, "slice-start", pp[1], 1, fn, an)
                elif e.kind in ("DESTROY", "CLONE"):
                    judge(e, "element-count", e["n"], 0, fn, an)
                elif e.kind == "RESERVE":
                    judge(e, "capacity-amount", e["n"], 0, fn, an)
                elif e.kind == "MOVE_INTO":
                    if slot_of(e["out"]) is not None:
                        judge(e, "value-size", e["size"], 1, fn, an)
                elif e.kind == "LAYOUT_NEW":
                    judge(e, "layout-size", e["size"], 1, fn, an)
            # stride provenance: a byte stride taken from a type must be the type accessed through that pointer
            for e in I.all_effects(("PTRADD",)):
                if e["ety"] not in BYTE_TYPES:
                    continue
                sz = [a for a in as_poly(e["n"]).atoms() if isinstance(a, tuple) and a and a[0] == "SIZEOF"]
                if not sz:
                    continue
                inst = e.node.inst
                typed = set()
                for x in effects_in(I, inst, ("DESTROY", "COPY", "WRITE", "PTRADD")):
                    et = x.get("ety")
                    if et and et not in BYTE_TYPES:
                        typed.add(et)
                key = (inst.path(), e.get("line"), "stride-type")
                if key in seen or not typed:
                    continue
                seen.add(key)
                res.inst(sample={"site": e.where(), "sink": "stride-type", "stride": str(sz[0]), "accessed_as": sorted(typed)}, func=inst.path())
                if all(a[1] in typed or ("core::mem::MaybeUninit<%s>" % a[1]) in typed for a in sz):
                    res.ok()
                else:
                    res.fail(inst.path(), "stride-type", "byte stride %s is taken from a type other than the one accessed through the pointer (%s)"
                             % (Poly.atom(sz[0]), ", ".join(sorted(typed))), span=span_of_effect(e))
    return res
