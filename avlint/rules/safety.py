import re
"""R-TYPEGUARD, R-ORDER, R-FORGET, R-EXPANDGUARD, R-NONINTERFERENCE, R-BOUNDLOOP"""
from ..core import RuleResult, arm_name, is_len_path
from ..poly import Poly
from ..interp import implies, cmp_fact, as_poly, Tree
from .util import *
from .bounds import handle_ctors, handle_roles, range_handle_invariants

USERISH = ("MOVE_INTO", "CLONE_INTO", "DESTROY", "CLONE", "USER")


def drop_entry_of(ctx, adt):
    for im in ctx.fx.impls_of("core::ops::Drop"):
        if im["self_ty"].get("path") == adt:
            return im["items"][0]["path"]
    return None


def range_handles(ctx):
    return sorted({im["self_ty"]["path"] for im in ctx.fx.impls_of("ops::iter::Iterable") if im["self_ty"].get("k") == "adt"})


def entry_points(ctx):
    """[(fn path, subst, entry facts, label)] -- contexts in which the ordering rules judge effect sites: public functions (safe or
    unsafe), every trait-impl method and trait default method, closures; TempValue<Op> methods once per Operation impl; Drop / Operation
    methods of handles start from the invariants established at creation."""
    cache = getattr(ctx, "_entry_points", None)
    if cache is not None:
        return cache
    fx = ctx.fx
    op_impls = [im for im in fx.impls_of("ops::temp::Operation") if im["self_ty"].get("k") == "adt"]
    handle_adts = set(range_handles(ctx)) | {im["self_ty"]["path"] for im in op_impls}
    # closures that are expanded in place (handed to a function of this crate or to a core combinator that just calls them) are judged in their
    # caller's graph, with the caller's facts; only closures that escape (coerced to a function pointer, handed to an iterator adaptor, stored) are
    # entry points of their own
    from ..graph import CLOSURE_COMBINATORS
    expanded = set()
    for g in fx.fn_list:
        for b in g.get("blocks", []):
            tm = b["term"]
            if tm["k"] != "call" or "indirect" in tm["callee"]:
                continue
            c = tm["callee"]
            if not (c.get("local_crate") or c["path"] in CLOSURE_COMBINATORS):
                continue
            for a in c.get("generic_args", []):
                if a.get("k") == "closure":
                    expanded.add(a["path"])
                elif a.get("k") == "ref" and a.get("to", {}).get("k") == "closure":
                    expanded.add(a["to"]["path"])
    exported_traits = {a["path"] for a in fx.api if a["kind"] == "Trait" and a["exported"]}
    out = []
    for f in fx.fn_list:
        if f.get("kind") not in ("Fn", "AssocFn", "Closure") or fx.fn(f["path"]) is not f:
            continue
        if f.get("kind") == "Closure" and f["path"] in expanded:
            continue
        path = f["path"]
        st = f.get("impl_self_ty", {})
        pub = f.get("kind") != "Closure" and (bool(f.get("reachable")) and f.get("vis") == "pub")
        trait_method = bool(f.get("impl_trait")) or f.get("parent_kind") == "Trait"
        if not (pub or trait_method or f.get("kind") == "Closure"):
            continue
        if trait_method and not pub:
            # a method of a crate-private helper trait on a type that is not a handle (no invariants to start from): only reachable through this crate's own
            # callers, where it is expanded with their facts
            tr_ = f.get("impl_trait") or f.get("trait_item_of") or ""
            if tr_ and not tr_.startswith("core::") and tr_ not in exported_traits and st.get("path") not in handle_adts \
                    and tr_ in ("iter::IteratorItem",):
                continue
        if st.get("path") == "ops::temp::TempValue":
            for im in op_impls:
                facts, _ = range_handle_invariants(ctx, im["self_ty"]["path"], prefix=("op",))
                out.append((path, {ctx.tparam(path, 0): im["self_ty"]}, facts, "Op=" + im["self_ty"]["path"].split("::")[-1]))
            continue
        if st.get("path") == "ops::iter::Iter" and f.get("self_kind") in ("ref", "mut", "value"):
            # the wrapper around a range handle (`Iter<I: Iterable>(I)`): once per range handle, from that handle's invariants
            its = [im for im in fx.impls_of("ops::iter::Iterable") if im["self_ty"].get("k") == "adt"]
            pn = next((a["name"] for a in st.get("args", []) if a.get("k") == "param"), None)
            conc = next((a for a in st.get("args", []) if a.get("k") == "adt"), None)
            done = False
            if pn is not None:
                for im in its:
                    facts, _ = range_handle_invariants(ctx, im["self_ty"]["path"], prefix=("0",))
                    out.append((path, {pn: im["self_ty"]}, facts, "I=" + im["self_ty"]["path"].split("::")[-1]))
                    done = True
            elif conc is not None and conc.get("path") in handle_adts:
                # an impl for one particular handle (`impl Iter<Drain<..>>`): that handle's invariants, nothing to substitute
                facts, _ = range_handle_invariants(ctx, conc["path"], prefix=("0",))
                out.append((path, None, facts, "I=" + conc["path"].split("::")[-1]))
                done = True
            if done:
                continue
        facts = None
        if st.get("path") in handle_adts and f.get("self_kind") in ("ref", "mut", "value"):
            facts, _ = range_handle_invariants(ctx, st["path"])
        elif st.get("path") == "iter::Iter" and f.get("self_kind") in ("ref", "mut"):
            # the cursor iterator's invariant index <= end (established by its constructor, preserved by every method: R-ITER)
            facts = frozenset([cmp_fact("Le", Poly.atom(("init", (("P", 1), ("index",)), 0)), Poly.atom(("init", (("P", 1), ("end",)), 0)))])
        out.append((path, None, facts, ""))
    ctx._entry_points = out
    return out


# ------------------------------------------------------------------------------------------------ R-TYPEGUARD

def _teq_facts(facts):
    return [f for f in facts if f[0] == "teq"]


def _is_runtime_typeid(x):
    return isinstance(x, tuple) and x and (x[0] == "VTYPEID" or (x[0] == "init" and x[1][1] and x[1][1][-1] in ("type_id", "typeid")))


def r_typeguard(ctx):
    res = RuleResult("R-TYPEGUARD")
    fx = ctx.fx
    # (1) user values moved/cloned into vector storage from safe public code
    entries = [f for f in ctx.public_safe_fns()]
    # safe Drop impls of handles are public behaviour too
    for adt in range_handles(ctx):
        dp = drop_entry_of(ctx, adt)
        if dp and ctx.fn(dp) and ctx.fn(dp) not in entries:
            entries.append(ctx.fn(dp))
    for f in entries:
        fpath = f["path"]
        for tt, I in ctx.arms(fpath) or []:
            for e in I.all_effects(("MOVE_INTO", "CLONE_INTO")):
                s = slot_of(e["out"])
                in_storage = s is not None or _ptr_into_storage(e["out"], I)
                if not in_storage:
                    continue
                res.inst(sample={"entry": fpath, "sink": "%s into vector storage" % e.kind, "value": str(e["value"]), "arm": arm_name(tt)}, func=fpath)
                val = e["value"]
                ok = False
                for t in _teq_facts(e["facts"]):
                    a, b = t[1], t[2]
                    for x, y in ((a, b), (b, a)):
                        if isinstance(x, tuple) and x and x[0] == "VTYPEID" and _same_value(x[1], val):
                            if _is_runtime_typeid(y) or (isinstance(y, tuple) and y and y[0] == "TYPEID"):
                                ok = True
                if not ok:
                    res.fail(fpath, "value-into-storage/%s" % arm_name(tt),
                             "a value of unchecked runtime type is written into vector storage: no dominating equality between value_typeid() of the value "
                             "and the vector's element type id (arm %s)" % arm_name(tt), span=span_of_effect(e))
                    continue
                # guard precedes every effect on the vector unless the sink sits in a loop (per-item check)
                if not _in_cycle(I, e.gid):
                    bad = None
                    for m in I.all_effects(("RESERVE", "COPY", "STORE")):
                        if m.kind == "STORE" and not is_len_path(m["path"]):
                            continue
                        if m.kind == "COPY" and slot_of(m["dst"]) is None:
                            continue
                        if not any(t in m["facts"] for t in _teq_facts(e["facts"])):
                            bad = m
                            break
                    if bad is not None:
                        res.fail(fpath, "guard-after-effect/%s" % arm_name(tt), "%s at %s happens before the type check" % (bad.kind, bad.where()),
                                 span=span_of_effect(bad))
                        continue
                res.ok()
    # (2) unchecked reinterpretations: calls of unsafe functions that take an explicit target type
    for f in fx.fn_list:
        if f.get("kind") not in ("Fn", "AssocFn") or f.get("unsafe") or fx.fn(f["path"]) is not f:
            continue
        fpath = f["path"]
        cands = _cast_sites(ctx, f)
        if not cands:
            continue
        for tt, I in ctx.arms(fpath) or []:
            for gid, rec in sorted(I.calls.items()):
                c = rec["callee"]
                if "indirect" in c or not _own_inst(I, rec["node"].inst):
                    continue
                if c["path"] not in cands:
                    continue
                T = cands[c["path"]](c, rec, I)
                if T is None:
                    continue
                res.inst(sample={"function": fpath, "unchecked": c["path"], "target": T}, func=fpath)
                ok = False
                for t in _teq_facts(rec["facts"]):
                    for x, y in ((t[1], t[2]), (t[2], t[1])):
                        if y == ("TYPEID", T) and (_is_runtime_typeid(x) or _is_call_typeid(x)):
                            ok = True
                        if T == "<swap>" and _is_vt(x) and _is_vt(y) and x != y:
                            ok = True
                if ok:
                    res.ok()
                else:
                    res.fail(fpath, "unchecked-cast", "%s is reached without a dominating check that the runtime type id equals TypeId::of::<%s>()"
                             % (c["path"], T), span="%s:%s" % (f["span"]["file"], rec["line"]))
    return res


def _is_vt(x):
    return isinstance(x, tuple) and x and x[0] in ("VTYPEID",) or _is_call_typeid(x)


def _is_call_typeid(x):
    return isinstance(x, tuple) and x and x[0] == "call" and ("typeid" in x[1] or "type_id" in x[1])


def _own_inst(I, inst):
    """the entry function itself or a closure written in it (expanded in place by then / map)"""
    while inst is not None and inst is not I.g.entry:
        if inst.fn.get("kind") != "Closure":
            return False
        inst = inst.parent
    return inst is not None


def _cast_sites(ctx, f):
    """local unsafe callees of f (and of the closures written in f) that reinterpret with an explicit target type -> extractor of that type"""
    out = {}
    blocks = list(f["blocks"])
    for g in ctx.fx.fn_list:
        if g.get("kind") == "Closure" and g["path"].startswith(f["path"] + "::{closure"):
            blocks += g["blocks"]
    for b in blocks:
        t = b["term"]
        if t["k"] != "call" or "indirect" in t["callee"]:
            continue
        c = t["callee"]
        cf = ctx.fx.fn(c["path"])
        if cf is None or not cf.get("unsafe"):
            continue
        own = [g for g in cf["generics"] if g["kind"] == "type"]
        # own type parameters of the method (beyond its impl/trait) => explicit target type
        nparent = _parent_generic_count(ctx, cf)
        own_ty = [g for g in cf["generics"][nparent:] if g["kind"] == "type"]
        ins = cf["sig"]["inputs"]
        out_s = cf["sig"]["output"].get("s", "")
        mentions_own = any(re.search(r"(?<![A-Za-z0-9_])" + re.escape(g["name"]) + r"(?![A-Za-z0-9_])", out_s) for g in own_ty)
        if cf.get("self_kind") in ("ref", "mut", "value") and len(ins) == 1 and own_ty and mentions_own:
            # fn(self) -> reinterpretation as T
            def ext(c, rec, I, nparent=nparent, cf=cf):
                ga = [a for a in c["generic_args"]]
                tys = [a for a, g in zip(ga, cf["generics"]) if g["kind"] == "type"]
                from ..types import ty_str
                own = [a for a, g in list(zip(ga, cf["generics"]))[nparent:] if g["kind"] == "type"]
                return ty_str(own[0]) if own else None
            out[c["path"]] = ext
        elif cf.get("self_kind") == "mut" and len(ins) == 2 and ins[1].get("k") == "ref" and own_ty and cf["name"].startswith("swap"):
            out[c["path"]] = lambda c, rec, I: "<swap>"
    return out


def _parent_generic_count(ctx, cf):
    p = cf.get("parent")
    if not p:
        return 0
    # generics list = parent generics (impl or trait) followed by own
    for im in ctx.fx.impls:
        if any(it["path"] == cf["path"] for it in im["items"]):
            return len(im["generics"])
    tr = ctx.fx.traits.get(p)
    if tr is not None:
        # trait generics: Self + params; count = generics until own: approximate via where no info: use number of generics of any sibling without own generics
        sib = [ctx.fx.fn(it["path"]) for it in tr["items"] if ctx.fx.fn(it["path"])]
        if sib:
            return min(len(s["generics"]) for s in sib)
        return 1
    return 0


def _same_value(vp, val):
    return vp == val or (isinstance(val, tuple) and vp in val) or repr(vp) in repr(val) or _root_of(vp) == _root_of(val)


def _root_of(v):
    if isinstance(v, tuple) and len(v) == 2 and isinstance(v[0], tuple) and isinstance(v[1], tuple) and v[0] and v[0][0] in ("L", "A", "P", "D"):
        return v[0]
    return v


def _ptr_into_storage(p, I):
    """loop-carried pointers: phi whose incoming values are vector slots"""
    if isinstance(p, tuple) and p and p[0] == "phi":
        gid, key = p[1], p[2]
        for (pg, kind) in I.g.nodes[gid].preds:
            st = I.in_state.get(pg)
        # look at any state value for the key that is a BASE pointer
        for st in I.in_state.values():
            v = st.env.get(key)
            if v is not None and slot_of(v) is not None:
                return True
    return False


def _in_cycle(I, gid):
    return gid in I.reachable_from(gid)


# ------------------------------------------------------------------------------------------------ R-ORDER

def ver_at(e, mp):
    root, proj = mp
    vs = []
    for i in range(len(proj) + 1):
        v = e["ver"].get((root, proj[:i]))
        if v is not None:
            vs.append(v)
    return tuple(vs) if vs else 0


def len_at(e, lp):
    v = e["lens"].get(lp)
    if v is None:
        return Poly.atom(("init", lp, 0))
    return as_poly(v)


POINTER_FIELDS = {"COPY": ("src", "dst"), "MOVE_INTO": ("out",), "CLONE_INTO": ("out",), "DESTROY": ("ptr",), "CLONE": ("src", "dst"),
                  "WRITE": ("dst",), "VIEW": ("ptr",), "SWAP": ("a", "b")}


def _reference_handles(ctx):
    """handle types that refer to an element without owning it: a field `ManuallyDrop<element::ElementPointer<..>>`"""
    c = ctx.__dict__.get("_refhandles")
    if c is None:
        c = set()
        for p, a in ctx.fx.adts.items():
            for v in a["variants"]:
                for fl in v["fields"]:
                    t = fl["ty"]
                    if t.get("k") == "adt" and t.get("path") == "core::mem::ManuallyDrop" and any(x.get("path") == "element::ElementPointer" for x in t.get("args", []) if isinstance(x, dict)):
                        c.add(p)
        ctx.__dict__["_refhandles"] = c
    return c


def r_order(ctx):
    res = RuleResult("R-ORDER")
    for fpath, subst, ef, label in entry_points(ctx):
        f = ctx.fn(fpath)
        arms = ctx.arms(fpath, subst=subst, entry_facts=ef)
        for tt, I in arms or []:
            an = arm_name(tt) + (("," + label) if label else "")
            effs = I.all_effects()
            users = [e for e in effs if e.kind in USERISH and (e.kind != "USER" or e["what"] in ("iter-next", "iter-len", "clone", "value_typeid", "size"))]
            shifts_ = [e for e in effs if e.kind == "COPY" and slot_of(e["src"]) and slot_of(e["dst"]) and slot_of(e["src"])[0] == slot_of(e["dst"])[0]]
            lstores = len_stores(I)
            reserves = [e for e in effs if e.kind == "RESERVE"]
            interesting = bool(reserves or shifts_ or lstores or any(e.kind in ("DESTROY", "CLONE") for e in effs))
            if not interesting:
                continue
            res.functions.add(fpath)
            # ---- P1: no pointer derived before a capacity change is used after it
            for e in effs:
                for fld in POINTER_FIELDS.get(e.kind, ()):
                    pp = ptr_parts(e[fld])
                    if not pp:
                        continue
                    mp = base_mem(pp[0])
                    if mp is None:
                        continue
                    res.inst(sample={"function": fpath, "P1-use": e.kind, "at": e.where()} if e.kind == "COPY" else None)
                    if pp[0][2] != ver_at(e, mp):
                        res.fail(e.node.inst.path(), "P1-stale-pointer/%s" % an, "%s at %s uses a storage pointer derived before a capacity change (RESERVE) on the same vector"
                                 % (e.kind, e.where()), span=span_of_effect(e))
                    else:
                        res.ok()
            for e in I.all_effects(("RETURN",)):
                pass
            # ---- P2: torn state at user code
            for c in shifts_:
                s, d = slot_of(c["src"]), slot_of(c["dst"])
                if s[1] is None or d[1] is None:
                    continue
                lp = len_path_of_mem(s[0])
                if lp is None:
                    continue
                for u in users:
                    if u is c:
                        continue
                    # u after c (reachable) and before LEN is finalised
                    if not (u.gid == c.gid and u.idx > c.idx) and u.gid not in I.reachable_from(c.gid):
                        continue
                    res.inst(sample={"function": fpath, "P2": "user code %s after shift" % u.kind, "at": u.where(), "arm": an})
                    L = len_at(u, lp)
                    lo_ok = (isinstance(L, Poly) and not L.m) or (implies(u["facts"], cmp_fact("Le", L, s[1])) and implies(u["facts"], cmp_fact("Le", L, d[1])))   # LEN == 0 hides every slot
                    if lo_ok:
                        res.ok()
                    else:
                        res.fail(u.node.inst.path(), "P2-torn-state/%s" % an,
                                 "user code (%s at %s) can run while slots moved by the shift at %s are still inside the visible length "
                                 "(LEN = %s, shifted from slot %s to %s): a panic exposes bitwise duplicates" % (u.kind, u.where(), c.where(), L, s[1], d[1]),
                                 span=span_of_effect(u))
            # ---- P3: destroyed slots are already hidden
            for d in [e for e in effs if e.kind == "DESTROY"]:
                s = slot_of(d["ptr"])
                if not s or s[1] is None:
                    continue
                lp = len_path_of_mem(s[0])
                if lp is None:
                    continue
                res.inst(sample={"function": fpath, "P3": "destroy from slot %s" % s[1], "LEN": str(len_at(d, lp)), "arm": an})
                L3 = len_at(d, lp)
                if (isinstance(L3, Poly) and not L3.m) or implies(d["facts"], cmp_fact("Le", L3, s[1])):
                    res.ok()
                else:
                    res.fail(d.node.inst.path(), "P3-destroy-visible/%s" % an, "elements from slot %s are destroyed while still inside the visible length %s (%s)"
                             % (s[1], len_at(d, lp), d.where()), span=span_of_effect(d))
            # ---- P3b: a handle that only REFERS to a live, visible element (ElementRef / ElementMut: the element pointer sits in ManuallyDrop) destroys that
            # element in place only after the vector's length was lowered (the element and what follows it hidden): the pointer is opaque, so the lowering
            # is required as such - without it a panic in the destructor or in what refills the slot leaves a destroyed element visible
            stp = (f or {}).get("impl_self_ty", {}).get("path") if f else None
            if stp in _reference_handles(ctx):
                lnodes = {e.gid for e in lstores}
                for d in [e for e in effs if e.kind == "DESTROY"]:
                    s = slot_of(d["ptr"])
                    if s and s[1] is not None:
                        continue
                    res.inst(sample={"function": fpath, "P3b": "destroy through a reference handle", "arm": an})
                    if every_path_to(I, d.gid, lambda g: g in lnodes):
                        res.ok()
                    else:
                        res.fail(d.node.inst.path(), "P3-destroy-visible-through-handle/%s" % an, "%s destroys the element it refers to while the element is still inside "
                                 "the vector's visible length (no length store precedes the destructor call): a panic in the destructor, or in whatever refills "
                                 "the slot, leaves a destroyed element visible" % fpath, span=span_of_effect(d))
            # ---- P4: handle consumption order
            cons = [e for e in effs if e.kind == "CONSUME"]
            if cons:
                for c in cons:
                    for d in [e for e in effs if e.kind == "DESTROY"]:
                        res.inst(sample={"function": fpath, "P4": "destroy before consume"})
                        if not _reach(I, c, d):
                            res.ok()
                        else:
                            res.fail(fpath, "P4-consume-order/%s" % an, "the removal is completed (consume) before the element is destroyed", span=span_of_effect(c))
                    cps = [e for e in effs if e.kind == "COPY"]
                    fg = [e for e in effs if e.kind == "FORGET"]
                    for cp in cps:
                        res.inst()
                        if not _reach(I, c, cp):
                            res.ok()
                        else:
                            res.fail(fpath, "P4-consume-order/%s" % an, "consume happens before the value bytes are copied out", span=span_of_effect(c))
                    for g in fg:
                        res.inst()
                        if not _reach(I, g, c):
                            res.ok()
                        else:
                            res.fail(fpath, "P4-consume-order/%s" % an, "the handle is forgotten before consume", span=span_of_effect(g))
            # final L= after every user effect, in Drop of range handles
            if ef is not None and lstores and f.get("impl_trait") == "core::ops::Drop":
                fin = lstores[-1]
                for u in users:
                    res.inst()
                    if before_in(I, u, fin) or not _reach(I, fin, u):
                        res.ok()
                    else:
                        res.fail(fpath, "P4-len-before-user/%s" % an, "the final length is restored before user code (%s at %s) has finished"
                                 % (u.kind, u.where()), span=span_of_effect(fin))
            # ---- P5: clone target stays empty until the clone function returned
            for c in [e for e in effs if e.kind == "CLONE"]:
                d = ptr_parts(c["dst"])
                mp = base_mem(d[0]) if d else None
                lp = len_path_of_mem(mp) if mp else None
                if lp is None:
                    continue
                res.inst(sample={"function": fpath, "P5": "clone into", "dst_len_at_clone": str(len_at(c, lp))})
                L = len_at(c, lp)
                if L == Poly() or L == Poly.atom(("init", lp, 0)) and lp[0][0] != "L":
                    res.ok()
                elif lp[0][0] == "L" and L != Poly():
                    res.fail(fpath, "P5-clone-len/%s" % an, "the destination's length is %s while the clone function runs; a panicking Clone would drop uninitialised slots" % L,
                             span=span_of_effect(c))
                else:
                    res.ok()
    return res


def _reach(I, a, b):
    return b.gid in I.reachable_from(a.gid) or (a.gid == b.gid and a.idx < b.idx)


# ------------------------------------------------------------------------------------------------ R-FORGET

def r_forget(ctx):
    res = RuleResult("R-FORGET")
    fx = ctx.fx
    trait = "any_value::AnyValueSizeless"
    impls = fx.impls_of(trait)
    if len(impls) < 7:
        res.coverage_lost("<crate>", "expected >= 7 impls of %s, found %d" % (trait, len(impls)))
    default = trait + "::move_into"
    for im in impls:
        st = im["self_ty"]
        adt = st.get("path", st.get("s"))
        own = [it["path"] for it in im["items"] if it["name"] == "move_into"]
        path = own[0] if own else default
        subst = {} if own else {"Self": st}
        arms = ctx.arms(path, subst=subst)
        a = fx.adts.get(adt, {})
        borrowing = any(g["kind"] == "lifetime" for g in a.get("generics", [])) and not a.get("has_drop_impl") and _holds_shared_ref(a)
        for tt, I in arms or []:
            role = "move_into:%s/%s" % (adt.split("::")[-1], arm_name(tt))
            res.inst(sample={"impl_for": adt, "resolved": path, "arm": arm_name(tt), "class": "lazy" if borrowing else "owning"}, func=path)
            copies = [e for e in I.all_effects(("COPY",))]
            forgets = I.all_effects(("FORGET", "MD_NEW"))      # mem::forget(self) or its body, `let _ = ManuallyDrop::new(self)`
            clones = I.all_effects(("CLONE_INTO", "CLONE"))
            rets = I.all_effects(("RETURN",))
            if borrowing:
                if copies:
                    res.fail(adt, role, "a borrowing (lazy) value is moved by bitwise copy: the source would be duplicated without cloning "
                             "(resolved move_into = %s)" % path, span=span_of_effect(copies[0]))
                    continue
                if len(clones) != 1:
                    res.fail(adt, role, "consuming a lazy value must clone the source exactly once, found %d clone calls" % len(clones), span=ctx.span_of(path))
                    continue
                if not all(before_in(I, clones[0], r) for r in rets):
                    res.fail(adt, role, "a path through move_into returns without cloning the source: the destination slot is left without a value", span=span_of_effect(clones[0]))
                    continue
                if forgets:
                    res.fail(adt, role, "lazy value forgets something on consumption", span=span_of_effect(forgets[0]))
                    continue
                res.ok()
                continue
            if len(copies) < 1:
                res.fail(adt, role, "move_into does not copy the value bytes out", span=ctx.span_of(path))
                continue
            if not forgets:
                res.fail(adt, role, "move_into copies the bytes but does not forget the source: the value would be destroyed twice", span=ctx.span_of(path))
                continue
            okf = all(any(before_in(I, g, r) for g in forgets) for r in rets)
            if not okf:
                res.fail(adt, role, "forget(self) is not on every normal path of move_into", span=span_of_effect(forgets[0]))
                continue
            if not all(before_in(I, c, forgets[0]) for c in copies):
                res.fail(adt, role, "forget happens before the copy", span=span_of_effect(forgets[0]))
                continue
            # no drop of self on a normal path
            drops = [d for d in I.all_effects(("DROP",)) if not d.node.cleanup and d["path"][0] == ("L", I.g.entry.loff + 1)]
            if drops:
                res.fail(adt, role, "self is dropped on a normal path after its bytes were moved out", span=span_of_effect(drops[0]))
                continue
            res.ok()
    # the consumption protocol is not bypassed: bytes of a user value are copied out only by move_into (override or default)
    for fpath, subst, ef, label in entry_points(ctx):
        for tt, I in ctx.arms(fpath, subst=subst, entry_facts=ef) or []:
            for c in I.all_effects(("COPY",)):
                pp = ptr_parts(c["src"])
                if not pp or not (isinstance(pp[0], tuple) and pp[0] and pp[0][0] == "VBYTES"):
                    continue
                fn = c.node.inst
                owner = fn
                # climb out of the copy helper
                while owner.parent is not None and owner.fn.get("name") not in ("move_into",) and not (owner.fn.get("impl_trait") or owner.fn.get("trait_item_of")):
                    owner = owner.parent
                res.inst(sample={"bitwise_copy_of_user_value_in": owner.path()}, func=owner.path())
                of = owner.fn
                is_protocol = of.get("name") == "move_into" and (of.get("impl_trait") == trait or of.get("trait_item_of") == trait)
                if is_protocol:
                    res.ok()
                else:
                    res.fail(owner.path(), "bypasses-move_into/%s" % arm_name(tt), "the bytes of a user value are copied out directly instead of through AnyValueSizeless::move_into: "
                             "overrides (lazy clones, removal handles) are skipped, the source is duplicated bitwise", span=span_of_effect(c))
    # ... nor by disarming a user value directly: mem::forget / ManuallyDrop::new of a value of a type parameter bound by an AnyValue* trait (or of `Self`
    # in a default method of those traits) skips what the value's own move_into does (removal handles finish the removal, lazy clones clone)
    SUPP = {"core::mem::forget": "mem::forget", "core::mem::ManuallyDrop::<T>::new": "ManuallyDrop::new"}
    for f in fx.fn_list:
        if fx.fn(f["path"]) is not f or not f.get("blocks"):
            continue
        is_protocol = f.get("name") == "move_into" and (f.get("impl_trait") == trait or f.get("trait_item_of") == trait)
        wh = f.get("where", [])
        for b in f["blocks"]:
            tm = b["term"]
            if tm["k"] != "call" or "indirect" in tm["callee"] or tm["callee"]["path"] not in SUPP:
                continue
            ga = [a for a in tm["callee"].get("generic_args", []) if a.get("k") not in ("region", "const")]
            if not ga:
                continue
            t = ga[0]
            user_value = t.get("k") == "param" and any(w.startswith(t["name"] + ": any_value::AnyValue") for w in wh)
            owning_handle = False
            if t.get("k") == "adt" and SUPP[tm["callee"]["path"]] == "mem::forget":
                a = fx.adts.get(t["path"])
                owning_handle = bool(a and a.get("has_drop_impl") and any(im["self_ty"].get("path") == t["path"] for im in impls))
            if not (user_value or owning_handle):
                continue
            res.inst(sample={"function": f["path"], "disarms": t.get("s"), "through": SUPP[tm["callee"]["path"]], "inside_move_into": is_protocol}, func=f["path"])
            cancels = False
            if owning_handle and not is_protocol:
                # forgetting a removal handle is also how a removal is CANCELLED: legitimate when the length lowered at its creation is stored back on
                # every path before the handle is disarmed (the element is visible again, nothing was moved)
                ents = [(s_, e_) for (p_, s_, e_, l_) in entry_points(ctx) if p_ == f["path"]]
                if not ents and f.get("impl_self_ty", {}).get("path") == "ops::temp::TempValue":
                    # a crate-private method of the removal handle: once per operation kind, as the public ones are
                    for im_ in fx.impls_of("ops::temp::Operation"):
                        if im_["self_ty"].get("k") == "adt":
                            fa_, _r = range_handle_invariants(ctx, im_["self_ty"]["path"], prefix=("op",))
                            ents.append(({ctx.tparam(f["path"], 0): im_["self_ty"]}, fa_))
                ents = ents or [(None, None)]
                all_arms = [x for (s_, e_) in ents for x in (ctx.arms(f["path"], subst=s_, entry_facts=e_) or [])]
                for tt_, I_ in all_arms:
                    fg = I_.all_effects(("FORGET", "MD_NEW"))
                    ln = {e_.gid for e_ in I_.all_effects(("STORE",)) if is_len_path(e_["path"])}
                    cancels = bool(fg) and bool(ln) and all(every_path_to(I_, e_.gid, lambda g: g in ln) for e_ in fg) \
                        and not I_.all_effects(("COPY", "DESTROY", "MOVE_INTO"))
                    if not cancels:
                        break
            if is_protocol or cancels:
                res.ok()
            else:
                res.fail(f["path"], "forget-bypasses-move_into", "%s of a value of type %s outside AnyValueSizeless::move_into: what the value's own move_into does on "
                         "consumption (finish a removal, clone a lazy value, destroy nothing twice) is skipped" % (SUPP[tm["callee"]["path"]], t.get("s")),
                         span="%s:%s" % (f["span"]["file"], tm.get("line")))
    # lazy-clone sources derived from a vector exist only for Cloneable constraint sets (a non-Cloneable vector has a no-op clone function)
    for im in fx.impls_of("any_value::AnyValueCloneable"):
        sp = im["self_ty"].get("path")
        if sp in ("any_value::lazy_clone::LazyClone",):
            continue
        res.inst(sample={"cloneable_impl_for": im["self_ty"].get("s"), "where": im.get("where")})
        if any("Cloneable" in w for w in im.get("where", [])):
            res.ok()
        else:
            res.fail(sp or im["self_ty"].get("s"), "cloneable-bound", "`impl AnyValueCloneable for %s` is not restricted to Cloneable constraint sets: lazy clones of values from a "
                     "non-Cloneable vector clone nothing and leave the destination uninitialised" % im["self_ty"].get("s"),
                     span="%s:%s" % (im["span"]["file"], im["span"]["line"]))
    # a value kind that owns a user value by value must destroy it when it is not consumed (a rejected wrong-type value is dropped, once): an owned `T`
    # kept inside ManuallyDrop / MaybeUninit needs a Drop impl on the wrapper
    for im in impls:
        st = im["self_ty"]
        a = fx.adts.get(st.get("path", ""))
        if not a:
            continue
        tparams = {g["name"] for g in a.get("generics", []) if g["kind"] == "type"}
        for v in a["variants"]:
            for fl in v["fields"]:
                t = fl["ty"]
                if t.get("k") == "adt" and t["path"] in ("core::mem::ManuallyDrop", "core::mem::MaybeUninit"):
                    inner = [x for x in t.get("args", []) if isinstance(x, dict) and x.get("k") == "param" and x.get("name") in tparams]
                    if inner:
                        res.inst(sample={"value_kind": a["path"], "field": fl["name"], "holds": t.get("s"), "has_drop_impl": a.get("has_drop_impl")})
                        if a.get("has_drop_impl"):
                            res.ok()
                        else:
                            res.fail(a["path"], "owned-value-no-drop", "`%s` owns a user value in field `%s: %s` but has no Drop impl: a value that is not consumed "
                                     "(rejected for its type, or simply dropped) is leaked instead of being destroyed once" % (a["path"], fl["name"], t.get("s")))
    # wrapper drop-glue facts
    expect_no_drop = ["element::ElementRef", "element::ElementMut", "any_value::lazy_clone::LazyClone", "any_value::raw::AnyValueRaw",
                      "any_value::raw::AnyValueTypelessRaw", "any_value::raw::AnyValueSizelessRaw"]
    expect_drop = ["element::ElementPointer", "ops::temp::TempValue", "ops::drain::Drain", "ops::splice::Splice"]
    for p in expect_no_drop:
        a = fx.adts.get(p)
        res.inst(sample={"type": p, "may_need_drop": a and a["may_need_drop"]})
        if a is None:
            res.coverage_lost(p, "type not found")
        elif a["has_drop_impl"] or (a["may_need_drop"] and p not in ("any_value::lazy_clone::LazyClone",)):
            res.fail(p, "drop-glue", "a non-owning wrapper has drop glue: references would destroy elements")
        else:
            res.ok()
    for p in expect_drop:
        a = fx.adts.get(p)
        res.inst(sample={"type": p, "has_drop_impl": a and a["has_drop_impl"]})
        if a is None:
            res.coverage_lost(p, "type not found")
        elif not a["has_drop_impl"]:
            res.fail(p, "drop-glue", "an owning handle has no Drop impl: elements it owns would leak or stay half-removed")
        else:
            res.ok()
    return res


def _holds_shared_ref(a):
    """the value only BORROWS what it stands for: a `&T` field, or a shared-borrow marker (`PhantomData<&T>`) next to fields without drop glue
    (`ManuallyDrop<handle>`, raw pointers, plain data) - it never owns the bytes it would hand over"""
    marker = False
    others_inert = True
    for v in a.get("variants", []):
        for f in v["fields"]:
            t = f["ty"]
            if t.get("k") == "ref" and not t.get("mut"):
                return True
            if t.get("k") == "adt" and t.get("path") == "core::marker::PhantomData":
                if any(x.get("k") == "ref" and not x.get("mut") for x in t.get("args", [])):
                    marker = True
                continue
            if t.get("k") == "adt" and t.get("path") == "core::mem::ManuallyDrop":
                continue
            if t.get("k") in ("ptr", "uint", "int", "bool"):
                continue
            others_inert = False
    return marker and others_inert


# ------------------------------------------------------------------------------------------------ R-EXPANDGUARD

def _at_least_one(p, facts):
    """the requested additional count is >= 1 whatever user code reports: a positive constant, `x.saturating_add(c)` / `x + c` with c >= 1 over non-negative
    terms, or a dominating fact"""
    c = p.const_value()
    if c is not None:
        return c >= 1
    if implies(facts, ("ge0", p - Poly.const(1))):
        return True
    if not p.nonneg_coeffs():
        return False
    if p.m.get((), 0) >= 1:
        return True
    for a in p.atoms():
        if isinstance(a, tuple) and a and a[0] == "saturating_add":
            for x in a[1:3]:
                cv = as_poly(x).const_value()
                if cv is not None and cv >= 1:
                    return True
    return False


def r_expandguard(ctx):
    res = RuleResult("R-EXPANDGUARD")
    sites = {}   # (function containing the call, line) -> [ok?]
    for fpath, subst, ef, label in entry_points(ctx):
        for tt, I in ctx.arms(fpath, subst=subst, entry_facts=ef) or []:
            for r in I.all_effects(("RESERVE",)):
                if r["how"] != "expand":
                    continue
                key = (r.node.inst.path(), r.get("line"))
                n = as_poly(r["n"])
                cap = as_poly(r["cap"])
                capatom = list(cap.atoms())[0]
                if capatom in n.atoms():
                    ok = implies(r["facts"], ("ge0", n - Poly.const(1)))
                else:
                    lp = len_path_of_mem(r["mem"])
                    L = len_at(r, lp) if lp else None
                    ok = L is not None and implies(r["facts"], cmp_fact("Le", cap, L)) and implies(r["facts"], ("ge0", n - Poly.const(1)))
                    if not ok:
                        # inside a loop the length / capacity are loop-carried values; a capacity test on such values is there (some fact relates a capacity
                        # of this storage to a loop-carried length) but cannot be matched term by term: not decided
                        capn = {a_[1] for a_ in cap.atoms() if isinstance(a_, tuple) and a_ and a_[0] == "CAP"}
                        guarded = any(ff[0] in ("eq0", "ge0") and any(isinstance(a_, tuple) and a_ and a_[0] == "CAP" and a_[1] in capn for a_ in ff[1].atoms())
                                      and any(isinstance(a_, tuple) and a_ and a_[0] == "phi" for a_ in ff[1].atoms()) for ff in r["facts"] if len(ff) == 2 and isinstance(ff[1], Poly))
                        if guarded:
                            ok = True
                            note = "%s: expand inside a loop, guard on loop-carried values - not decided" % r.where()
                            if note not in res.notes:
                                res.notes.append(note)
                sites.setdefault(key, []).append((ok, fpath, r))
                # a reservation of a fixed number of slots made by an operation that is not itself a capacity request is a promise to fill them: a path that
                # returns without writing anything demanded capacity for nothing - on a full fixed-capacity vector that is a panic where the operation
                # would have been a no-op (an `extend` that reserves before it knows whether the iterator has another item)
                ef_ = ctx.fn(fpath) or {}
                lp = len_path_of_mem(r["mem"])
                L = len_at(r, lp) if lp else None
                add = (n + cap - as_poly(L)) if (L is not None and capatom in n.atoms()) else (n if L is not None else None)
                if ef_.get("name") not in ("reserve", "reserve_exact", "with_capacity", "with_capacity_in", "expand", "expand_exact", "build_with_size") \
                        and add is not None and _at_least_one(add, r["facts"]):
                    wnodes = {e.gid for e in I.all_effects(("WRITE", "MOVE_INTO", "CLONE_INTO", "CLONE"))}
                    wnodes |= {e.gid for e in I.all_effects(("COPY",)) if slot_of(e["dst"]) is not None}
                    rets = {e.gid for e in I.all_effects(("RETURN",))}
                    after = I.reachable_from(r.gid)
                    # a reservation made once, ahead of a loop that writes: the loop runs as often as was reserved for (its count is not decided here);
                    # a reservation inside the loop itself is judged per iteration
                    looped = r.gid not in after and any(w in after and w in I.reachable_from(w) for w in wnodes)
                    work, seen_n, idle = ([] if looped else [r.gid]), {r.gid}, None
                    while work and idle is None:
                        g = work.pop()
                        for s2 in I._succs(g):
                            if s2 in seen_n or s2 in wnodes:
                                continue
                            if s2 in rets:
                                idle = s2
                                break
                            seen_n.add(s2)
                            work.append(s2)
                    key2 = (r.node.inst.path(), r.get("line"), "fill")
                    sites.setdefault(key2, []).append((idle is None, fpath, r))
    for key_, lst in sorted(sites.items(), key=lambda kv: (kv[0][0], kv[0][1] or 0, len(kv[0]))):
        if len(key_) == 3:
            fn, line, _ = key_
            res.inst(sample={"fixed_reservation_site": fn, "line": line, "filled_on_every_path": all(x[0] for x in lst)}, func=fn)
            bad = [x for x in lst if not x[0]]
            if not bad:
                res.ok()
            else:
                ok, entry, r = bad[0]
                res.fail(entry, "reservation-without-write", "%s reserves room for a fixed number of elements and can then return without writing any: on a vector "
                         "that is exactly full (a fixed-capacity backend at its capacity) the reservation panics although the operation adds nothing" % entry,
                         span=span_of_effect(r))
            continue
        fn, line = key_
        res.inst(sample={"expand_site": fn, "line": line, "contexts": len(lst), "guarded_in_all": all(x[0] for x in lst)}, func=fn)
        bad = [x for x in lst if not x[0]]
        if not bad:
            res.ok()
        else:
            ok, entry, r = bad[0]
            res.fail(fn, "expand", "Mem::expand(%s) is reached (from %s) without a dominating check that the capacity is insufficient; "
                     "on fixed-capacity backends expand always panics" % (r["n"], entry), span=span_of_effect(r))
    return res


# ------------------------------------------------------------------------------------------------ R-NONINTERFERENCE

def iter_modset(ctx):
    """fields of the cursor iterator written by next/next_back"""
    mod = set()
    adt = None
    for im in ctx.fx.impls:
        if im.get("trait") in ("core::iter::Iterator", "core::iter::DoubleEndedIterator") and im["self_ty"].get("path") == "iter::Iter":
            adt = "iter::Iter"
            for it in im["items"]:
                if it["name"] in ("next", "next_back"):
                    for tt, I in ctx.arms(it["path"]) or []:
                        for e in I.all_effects(("STORE",)):
                            p = e["path"]
                            if p[0] == ("P", 1) and len(p[1]) == 1:
                                mod.add(p[1][0])
    return adt, mod


def r_noninterference(ctx):
    res = RuleResult("R-NONINTERFERENCE")
    adt_iter, mod = iter_modset(ctx)
    if not mod:
        res.coverage_lost("iter::Iter", "no cursor field written by next/next_back found")
        return res
    for adt in range_handles(ctx):
        a = ctx.fx.adts.get(adt)
        iter_fields = [f["name"] for v in a["variants"] for f in v["fields"] if f["ty"].get("path") == adt_iter]
        dp = drop_entry_of(ctx, adt)
        if not dp or not iter_fields:
            res.coverage_lost(adt, "range handle without inner iterator / Drop")
            continue
        ef, roles = range_handle_invariants(ctx, adt)

        def tainted(p):
            for at in as_poly(p).atoms() if isinstance(p, Poly) else _atoms_in(p):
                if isinstance(at, tuple) and at and at[0] == "init":
                    pr = at[1][1]
                    if len(pr) == 2 and pr[0] in iter_fields and pr[1] in mod:
                        return at
            return None
        for tt, I in ctx.arms(dp, entry_facts=ef) or []:
            an = arm_name(tt)
            name = adt.split("::")[-1]
            for c in I.all_effects(("COPY",)):
                s, d = slot_of(c["src"]), slot_of(c["dst"])
                if not s or not d:
                    continue
                for what, term in (("tail source slot", s[1]), ("tail count", c["n"]), ("tail destination slot", d[1])):
                    res.inst(sample={"handle": name, "term": what, "value": str(term)}, func=dp)
                    t = tainted(term) if term is not None else None
                    if t is None:
                        res.ok()
                    else:
                        res.fail(dp, "%s/%s" % (what.replace(" ", "-"), an), "%s of %s::drop depends on a cursor field that next/next_back modify (%s): "
                                 "what the iterator leaves behind depends on how it was consumed" % (what, name, Poly.atom(t)), span=span_of_effect(c))
            ls = len_stores(I)
            if ls:
                fin = ls[-1]
                res.inst(sample={"handle": name, "term": "final length", "value": str(fin["value"])}, func=dp)
                t = tainted(as_poly(fin["value"]))
                if t is None:
                    res.ok()
                else:
                    res.fail(dp, "final-length/%s" % an, "the restored length of %s::drop depends on a cursor field that next/next_back modify (%s)"
                             % (name, Poly.atom(t)), span=span_of_effect(fin))
            for r in I.all_effects(("RESERVE",)):
                res.inst()
                t = tainted(as_poly(r["n"]))
                if t is None:
                    res.ok()
                else:
                    res.fail(dp, "reserve/%s" % an, "the reservation depends on a consumed cursor field (%s)" % Poly.atom(t), span=span_of_effect(r))
    return res


def _atoms_in(v):
    out = []
    if isinstance(v, Poly):
        return list(v.atoms())
    if isinstance(v, tuple):
        for x in v:
            out += _atoms_in(x)
        if v and v[0] == "init":
            out.append(v)
    return out


# ------------------------------------------------------------------------------------------------ R-BOUNDLOOP

def r_boundloop(ctx):
    res = RuleResult("R-BOUNDLOOP")
    found = 0
    for adt in range_handles(ctx):
        dp = drop_entry_of(ctx, adt)
        if not dp:
            continue
        ef, roles = range_handle_invariants(ctx, adt)
        for tt, I in ctx.arms(dp, entry_facts=ef) or []:
            an = arm_name(tt)
            nexts = [e for e in I.all_effects(("USER",)) if e["what"] == "iter-next" and _in_cycle(I, e.gid)]
            writes = [e for e in I.all_effects(("MOVE_INTO", "CLONE_INTO", "WRITE")) if _in_cycle(I, e.gid)]
            if not nexts or not writes:
                continue
            found += 1
            res.inst(sample={"function": dp, "loop": "user iterator next() + write into storage", "arm": an}, func=dp)
            loop = I.reachable_from(nexts[0].gid) & _coreach(I, nexts[0].gid)
            loop.add(nexts[0].gid)
            # exits: branch nodes in the loop with a successor outside
            bounded = False
            bounding = []
            for sw in I.all_effects(("SWITCH",)):
                gid = sw.gid
                if gid not in loop:
                    continue
                n = I.g.nodes[gid]
                outs = [s for (s, k) in n.succs if k == "normal" and s not in loop]
                if not outs:
                    continue
                d = sw["discr"]
                if isinstance(d, tuple) and d and d[0] == "cmp":
                    ats = set(as_poly(d[2]).atoms()) | set(as_poly(d[3]).atoms())
                    has_counter = any(isinstance(a, tuple) and a and a[0] == "phi" for a in ats)
                    has_len = any(isinstance(a, tuple) and a and a[0] in ("userlen", "usersize_hint") for a in ats)
                    if has_counter and has_len:
                        bounded = True
                        bounding.append(gid)
            # ... or the loop is a counted `for _ in 0..n` over the reported length (it leaves when the range is exhausted)
            for rn in I.all_effects(("RANGE_NEXT",)):
                if rn.gid in loop and any(k in repr(rn.d) for k in ("userlen", "usersize_hint")):
                    bounded = True
            # ... or the iterator polled in the loop is `take(n)` of the user iterator with n the reported length
            for nx in nexts:
                bd = nx.get("bound")
                if bd is not None:
                    bp = as_poly(bd)
                    ats = list(bp.atoms())
                    if len(ats) == 1 and isinstance(ats[0], tuple) and ats[0][0] in ("userlen", "usersize_hint") and bp == Poly.atom(ats[0]):
                        bounded = True
            # ... and the bound is the very value the room was made for (a second call of len() may return something else)
            if bounded:
                room = set()
                for r_ in I.all_effects(("RESERVE",)):
                    room |= {a_ for a_ in as_poly(r_["n"]).atoms() if isinstance(a_, tuple) and a_ and a_[0] in ("userlen", "usersize_hint")}
                used = set()
                for sw in I.all_effects(("SWITCH",)):
                    if sw.gid in loop and isinstance(sw["discr"], tuple) and sw["discr"] and sw["discr"][0] == "cmp":
                        used |= {a_ for x_ in (sw["discr"][2], sw["discr"][3]) for a_ in as_poly(x_).atoms()
                                 if isinstance(a_, tuple) and a_ and a_[0] in ("userlen", "usersize_hint")}
                for nx in nexts:
                    if nx.get("bound") is not None:
                        used |= {a_ for a_ in as_poly(nx["bound"]).atoms() if isinstance(a_, tuple) and a_ and a_[0] in ("userlen", "usersize_hint")}
                if room and used and not (used <= room):
                    res.fail(dp, "bound-not-reserved/%s" % an, "the write loop is bounded by a length reported by a different call of the user iterator's len() than "
                             "the one the room was reserved for: an iterator whose len() is not stable writes over the moved tail", span=span_of_effect(writes[0]))
                    continue
            if bounded and bounding and not any(I.all_effects(("RANGE_NEXT",)) and rn.gid in loop for rn in I.all_effects(("RANGE_NEXT",))):
                # the counter test has to come BEFORE each write of the iteration: tested only after the write, an iterator that reports 0 items and
                # yields some is written once before the first test, and the test `written == reported` then never holds
                late = [w for w in writes if not every_path_to(I, w.gid, lambda g: g in bounding)]
                if late:
                    res.fail(dp, "bound-tested-after-write/%s" % an, "the loop compares the number of written items with the reported length only after writing an "
                             "item: a replacement iterator that reports fewer items than it yields (0, say) is written past the reserved room", span=span_of_effect(late[0]))
                    continue
            if not bounded:
                res.fail(dp, "unbounded-write-loop/%s" % an, "the loop that writes replacement items into storage stops only when the user iterator returns None: "
                         "an iterator yielding more than its len() writes past the reserved space / over the moved tail", span=span_of_effect(writes[0]))
                continue
            ls = len_stores(I)
            fin = as_poly(ls[-1]["value"]) if ls else None
            if fin is None or not any(isinstance(a, tuple) and a and a[0] == "phi" for a in fin.atoms()):
                res.fail(dp, "len-trusts-reported/%s" % an, "the final length uses the reported len() instead of the number of items actually written",
                         span=span_of_effect(ls[-1]) if ls else None)
                continue
            res.ok()
    if found == 0:
        res.coverage_lost("<crate>", "no replacement-iterator write loop found (Splice::drop anchor)")
    # any other operation that fills storage from a user iterator in a loop: the length it stores afterwards is the number of items written, never a
    # number the iterator reported (`size_hint`, `len`) - an iterator that yields fewer leaves never-written slots counted as elements
    hs = set(range_handles(ctx))
    for fpath, subst, ef, label in entry_points(ctx):
        f = ctx.fn(fpath)
        if f is None or f.get("impl_self_ty", {}).get("path") in hs:
            continue
        for tt, I in ctx.arms(fpath, subst=subst, entry_facts=ef) or []:
            nexts = [e for e in I.all_effects(("USER",)) if e["what"] == "iter-next" and _in_cycle(I, e.gid)]
            writes = [e for e in I.all_effects(("MOVE_INTO", "CLONE_INTO", "WRITE", "COPY")) if _in_cycle(I, e.gid)]
            if not nexts or not writes:
                continue
            an = arm_name(tt)
            res.inst(sample={"function": fpath, "loop": "user iterator next() + write into storage", "arm": an}, func=fpath)
            bad = None
            for ls_ in len_stores(I):
                v = as_poly(ls_["value"])
                if any(isinstance(a, tuple) and a and a[0] in ("userlen", "usersize_hint") or (isinstance(a, tuple) and a and a[0] == "fld" and "usersize_hint" in repr(a))
                       for a in v.atoms()) and not any(isinstance(a, tuple) and a and a[0] == "phi" for a in v.atoms()):
                    bad = ls_
            if bad is not None:
                res.fail(fpath, "len-trusts-reported/%s" % an, "%s stores a length computed from what the iterator reported (%s) after a loop that writes the items it "
                         "actually yields: an iterator that yields fewer leaves never-written slots counted as elements" % (fpath, bad["value"]), span=span_of_effect(bad))
            else:
                res.ok()
    return res


def _coreach(I, g):
    seen = set()
    st = [g]
    while st:
        x = st.pop()
        for (p, k) in I.g.nodes[x].preds:
            if k == "normal" and p not in seen:
                seen.add(p)
                st.append(p)
    return seen
