"""R-FORMULA: per-operation effect summary equals the Vec model over (LEN, CAP, slots), per dispatch arm.
Each row is checked on the polymorphic MIR of the function that implements it (found through the public API),
so it holds for every element layout, backend and constraint set at once."""
from ..core import RuleResult, arm_name, is_len_path
from ..poly import Poly
from ..interp import implies, cmp_fact, as_poly, Tree
from .util import *
from .bounds import handle_ctors, range_handle_invariants, is_cursor_key

ONE = Poly.const(1)
JUDGED = {}       # id(RuleResult) -> raw def paths of the functions some row judges (filled by Row)


def real_mutations(I, inst=None):
    out = []
    for e in I.all_effects(MUTATING):
        if inst is not None and not inst_within(e.node.inst, inst):
            continue
        if e.kind == "STORE" and (e["path"][0][0] in ("L", "M", "D") and not is_len_path(e["path"])):
            # byte loop body / locals
            if e["path"][0][0] in ("M",) or (e["path"][0][0] == "D" and not e["path"][1]):
                continue
            if e["path"][0][0] == "L":
                continue
        out.append(e)
    return out


def shifts(I):
    """COPY effects inside vector storage -> (effect, mem, src_slot, dst_slot, count_elems)"""
    out = []
    seen = set()
    for c in I.all_effects(("COPY",)):
        s, d = slot_of(c["src"]), slot_of(c["dst"])
        key = (repr(c["src"]), repr(c["dst"]), repr(c["n"]))
        if key in seen:
            continue
        seen.add(key)
        stride = (s and s[2]) or (d and d[2])
        n = in_elems(c["n"], stride, c["ety"])
        out.append((c, s, d, n))
    return out


class Row:
    def __init__(self, res, ctx, name, fpath, arm, I):
        self.res, self.ctx, self.name, self.fpath, self.arm, self.I = res, ctx, name, fpath, arm, I
        self.bad = False
        JUDGED.setdefault(id(res), set()).add(ctx.P(fpath) or fpath)
        res.inst(sample={"row": name, "function": fpath, "arm": arm_name(arm)}, func=fpath)

    def fail(self, what, eff=None, sub=""):
        self.bad = True
        span = span_of_effect(eff) if eff is not None else self.ctx.span_of(self.fpath)
        self.res.fail(self.fpath, "%s/%s%s" % (self.name, arm_name(self.arm), (":" + sub) if sub else ""),
                      "row `%s`: %s" % (self.name, what), span=span)

    def expect_eq(self, what, got, want, eff=None, sub=""):
        if want is None:
            self.fail("%s cannot be compared: the expected term is unknown (handle field role missing)" % what, eff, sub)
            return False
        if got is None or as_poly(got) != as_poly(want):
            self.fail("%s is %s, the Vec model requires %s" % (what, got, want), eff, sub)
            return False
        return True

    def all_paths(self, eff, what, zero=None, no_destructor=False, same_slot=False, sub="all-paths"):
        """`eff` is mandatory: every path to every return passes it - unless the edge taken makes it void: `zero` (a count) is 0 on that edge, or
        (no_destructor) the vector has no destructor there. An element size of 0 or a missing drop glue is never an excuse for skipping a step that
        also does bookkeeping."""
        I = self.I

        def excused(p_, g_):
            fs = edge_facts(I, p_, g_)
            if zero is not None and implies(fs, ("eq0", as_poly(zero))):
                return True
            if same_slot:
                for f_ in fs:
                    # source and destination are the same slot (pointer equality established on this edge): nothing to copy
                    if f_[0] in ("true", "isfalse") and isinstance(f_[1], tuple) and f_[1][:1] == ("pcmp",) and ((f_[1][1] == "Eq") == (f_[0] == "true")) \
                            and f_[1][1] in ("Eq", "Ne"):
                        return True
            if no_destructor:
                for f_ in fs:
                    if f_[0] in ("eq0", "ne0"):
                        dats = [a_ for a_ in f_[1].atoms() if isinstance(a_, tuple) and a_[0] == "discr" and "drop_fn" in repr(a_)]
                        if len(dats) == 1:
                            at_ = Poly.atom(dats[0])
                            if (f_[0] == "eq0" and f_[1] in (at_, -at_)) or (f_[0] == "ne0" and f_[1] in (at_ - ONE, ONE - at_)):
                                return True
                    if f_[0] == "isfalse" and "needs_drop" in repr(f_[1]):
                        return True
            return False
        # an effect inside an expanded helper (copy_bytes picks ptr::copy or a byte loop) counts at the helper's call site in the judged function
        inst = eff.node.inst
        site = eff.gid
        while inst is not I.g.entry and inst.parent is not None:
            site = inst.call_gid
            inst = inst.parent
        for r in I.all_effects(("RETURN",)):
            if not every_path_to(I, r.gid, lambda g_: g_ == site, ok_edge=excused):
                self.fail("a path returns without %s" % what, r, sub)
                return False
        return True

    def done(self):
        if not self.bad:
            self.res.ok()


def _flat(v):
    """all nested tuple terms of a value (to ask whether a term occurs inside it)"""
    out = set()
    st = [v]
    while st:
        x = st.pop()
        if isinstance(x, Poly):
            st.extend(x.atoms())
        elif isinstance(x, tuple):
            out.add(x)
            st.extend(x)
    return out


def _final_len(I, lp=None):
    """value of the LEN store that dominates every normal return (None if none / ambiguous)"""
    ls = len_stores(I)
    rets = I.all_effects(("RETURN",))
    if not ls or not rets:
        return None, None
    idom = I.dominators()
    # last store on every path: a store that dominates all returns and is not followed by another store
    cands = [s for s in ls if all(I.g.dominates(idom, s.gid, r.gid) for r in rets)]
    if not cands:
        return None, None
    # pick the one dominated by all other candidates (the latest)
    best = cands[0]
    for c in cands[1:]:
        if I.g.dominates(idom, best.gid, c.gid) and (best.gid != c.gid or best.idx < c.idx):
            best = c
    return best, as_poly(best["value"])


def _reserve_one_ok(row, I, L0, mem):
    """RESERVE iff LEN==CAP, n=1"""
    rs = [e for e in I.all_effects(("RESERVE",))]
    if len(rs) != 1:
        row.fail("expected exactly one growth site (reserve_one), found %d" % len(rs), sub="reserve")
        return
    r = rs[0]
    cap = r["cap"]
    if r["how"] != "expand" or as_poly(r["n"]) != ONE:
        row.fail("growth must be expand(1), found %s(%s)" % (r["how"], r["n"]), r, "reserve")
    if not implies(r["facts"], ("eq0", _canon(as_poly(L0) - as_poly(cap)))) and not implies(r["facts"], cmp_fact("Le", cap, L0)):
        row.fail("expand is not guarded by LEN == CAP (known: %s)" % fmt_facts(r["facts"]), r, "reserve")
    # room is made before anything else happens: beyond capacity the operation panics leaving the contents unchanged
    for e in real_mutations(I):
        if e is r or e.kind == "RESERVE":
            continue
        if not before_in(I, r, e) and not (e.kind == "STORE" and not is_len_path(e["path"])):
            # the growth site sits in a branch: require that it cannot be reached after e
            if r.gid in I.reachable_from(e.gid) or (r.gid == e.gid and e.idx < r.idx):
                row.fail("%s at %s happens before room is made for the new element" % (e.kind, e.where()), e, "reserve-first")
                break


def _canon(p):
    from ..interp import canon_sign
    return canon_sign(p)


def r_formula(ctx):
    res = RuleResult("R-FORMULA")
    fx = ctx.fx
    RAW = "any_vec_raw::AnyVecRaw::"

    def arms(p):
        a = ctx.arms(p)
        if a is None:
            res.coverage_lost(p, "function not found (anchor)")
            return []
        return a

    # ------------------------------------------------------------------ push
    p = _callee_of(ctx, "any_vec::AnyVec::push", lambda f: f.get("unsafe") and _has_generic_value(f), res)
    for tt, I in arms(p) if p else []:
        row = Row(res, ctx, "push", p, tt, I)
        lp = (("P", 1), ("len",))
        L0 = entry_len(I, I.g.entry, lp)
        _reserve_one_ok(row, I, L0, None)
        mi = I.all_effects(("MOVE_INTO",))
        if len(mi) != 1:
            row.fail("expected one write of the value, found %d" % len(mi))
        else:
            s = slot_of(mi[0]["out"])
            if not s or s[1] is None:
                row.fail("value is not written to a slot of the vector storage (out = %s)" % (mi[0]["out"],), mi[0])
            else:
                row.expect_eq("destination slot", s[1], L0, mi[0], "slot")
                _size_ok(row, mi[0], s)
                row.all_paths(mi[0], "writing the value into its slot (the length then covers a slot that holds no value)")
        st, fl = _final_len(I)
        row.expect_eq("final length", fl, as_poly(L0) + ONE, st, "len")
        _no_other(row, I, allowed=("RESERVE", "MOVE_INTO", "STORE"))
        row.done()

    # ------------------------------------------------------------------ insert
    p = _callee_of(ctx, "any_vec::AnyVec::insert", lambda f: f.get("unsafe") and _has_generic_value(f), res)
    for tt, I in arms(p) if p else []:
        row = Row(res, ctx, "insert", p, tt, I)
        lp = (("P", 1), ("len",))
        L0 = as_poly(entry_len(I, I.g.entry, lp))
        idx = Poly.atom(("param", 2))
        _reserve_one_ok(row, I, L0, None)
        sh = shifts(I)
        if len(sh) != 1:
            row.fail("expected exactly one shift, found %d" % len(sh), sub="shift")
        else:
            c, s, d, n = sh[0]
            if not s or not d or s[1] is None or d[1] is None:
                row.fail("shift does not address vector slots", c, "shift")
            else:
                row.expect_eq("shift source slot", s[1], idx, c, "shift-src")
                row.expect_eq("shift destination slot", d[1], idx + ONE, c, "shift-dst")
                row.expect_eq("shift count", n, L0 - idx, c, "shift-count")
                row.all_paths(c, "shifting the tail (the inserted value overwrites an element)", zero=L0 - idx, sub="shift-all-paths")
        mi = I.all_effects(("MOVE_INTO",))
        if len(mi) != 1:
            row.fail("expected one write of the value, found %d" % len(mi))
        else:
            s = slot_of(mi[0]["out"])
            if not s or s[1] is None:
                row.fail("value is not written to a vector slot", mi[0])
            else:
                row.expect_eq("destination slot", s[1], idx, mi[0], "slot")
                _size_ok(row, mi[0], s)
                row.all_paths(mi[0], "writing the value into its slot")
            # shift precedes the write
            if sh and not _before(I, sh[0][0], mi[0]):
                row.fail("the value is written before the tail is shifted", mi[0], "order")
        st, fl = _final_len(I)
        row.expect_eq("final length", fl, L0 + ONE, st, "len")
        _no_other(row, I, allowed=("RESERVE", "MOVE_INTO", "STORE", "COPY"))
        row.done()

    # ------------------------------------------------------------------ clear
    p = RAW + "clear"
    for tt, I in arms(p):
        row = Row(res, ctx, "clear", p, tt, I)
        lp = (("P", 1), ("len",))
        L0 = as_poly(entry_len(I, I.g.entry, lp))
        st, fl = _final_len(I)
        row.expect_eq("final length", fl, Poly(), st, "len")
        ds = I.all_effects(("DESTROY",))
        if len(ds) != 1:
            row.fail("expected one destructor call over the old contents, found %d" % len(ds))
        else:
            s = slot_of(ds[0]["ptr"])
            if not s or s[1] is None:
                row.fail("destructor does not start at the storage base", ds[0])
            else:
                row.expect_eq("first destroyed slot", s[1], Poly(), ds[0], "slot")
            row.expect_eq("destroyed count", ds[0]["n"], L0, ds[0], "count")
            row.all_paths(ds[0], "destroying the old contents although the vector has a destructor", zero=L0, no_destructor=True)
        _no_other(row, I, allowed=("STORE", "DESTROY"))
        row.done()

    # ------------------------------------------------------------------ handle constructors: recorded fields
    ctors, adts = handle_ctors(ctx)
    ctor_by_adt = {adt: c for c, (adt, n) in ctors.items()}
    fields = {}
    for cpath, (adt, nidx) in sorted(ctors.items()):
        for tt, I in arms(cpath):
            row = Row(res, ctx, "ctor-fields:" + adt.split("::")[-1], cpath, tt, I)
            ls = len_stores(I)
            rets = I.all_effects(("RETURN",))
            if not ls or not rets:
                row.fail("constructor shape not recognised")
                row.done()
                continue
            L0 = as_poly(entry_len(I, I.g.entry, ls[0]["path"]))
            tree = rets[0]["value"]
            fmap = {}
            if isinstance(tree, tuple) and tree and tree[0] == "tree":
                for k, v in tree[1]:
                    fmap[k] = v
            # roles by value
            roles = {}
            for k, v in fmap.items():
                if isinstance(v, Poly):
                    if v == L0 - ONE:
                        roles["last_index"] = k
                    elif v == L0:
                        roles["original_len"] = k
                    elif v == Poly.atom(("param", 2)):
                        roles.setdefault("index", []).append(k) if isinstance(roles.get("index"), list) else roles.__setitem__("index", [k])
                    elif v == Poly.atom(("param", 3)):
                        roles.setdefault("end", []).append(k) if isinstance(roles.get("end"), list) else roles.__setitem__("end", [k])
                elif isinstance(v, tuple) and v and v[0] == "ptr":
                    s = slot_of(v)
                    if s and s[1] == Poly.atom(("param", 2)):
                        roles["element"] = k
            fields[adt] = (roles, fmap)
            name = adt.split("::")[-1]
            if nidx == 1 and "last_index" not in roles:
                row.fail("no field records LEN-1 (the last index) at creation")
            if nidx == 1 and "index" not in roles and "element" not in roles:
                row.fail("neither the index nor the element pointer is recorded at creation")
            if nidx == 2:
                if "original_len" not in roles:
                    row.fail("no field records the original length")
                if "index" not in roles:
                    row.fail("the range start is not recorded")
                if "end" not in roles:
                    row.fail("the range end is not recorded")
                else:
                    # the cursor pair is (start, end) in that order
                    ks = roles["index"] + roles["end"]
                    it_index = [k for k in roles["index"] if is_cursor_key(ctx, adt, k)]
                    it_end = [k for k in roles["end"] if is_cursor_key(ctx, adt, k)]
                    if not it_index or not it_end or it_index[0][:-1] != it_end[0][:-1]:
                        row.fail("the inner iterator is not created over (start, end)")
            row.done()

    # ------------------------------------------------------------------ Operation impls: bytes() and consume()
    for im in fx.impls_of("ops::temp::Operation"):
        adt = im["self_ty"].get("path")
        roles, fmap = fields.get(adt, ({}, {}))
        items = {it["name"]: it["path"] for it in im["items"]}
        name = adt.split("::")[-1]
        nidx = ctors.get(ctor_by_adt.get(adt), (None, None))[1]

        def fld(role):
            k = roles.get(role)
            if isinstance(k, list):
                k = k[0]
            if k is None:
                return None
            return Poly.atom(("init", (("P", 1), k), 0))

        # bytes
        bp = items.get("bytes")
        for tt, I in arms(bp) if bp else []:
            row = Row(res, ctx, "%s::bytes" % name, bp, tt, I)
            rets = I.all_effects(("RETURN",))
            v = rets[0]["value"] if rets else None
            if nidx == 0:
                s = slot_of(v)
                ptrs = I.all_effects(("PTR",))
                lp = len_path_of_mem(ptrs[0]["mem"]) if ptrs else None
                cur = as_poly(entry_len(I, I.g.entry, lp)) if lp else None
                if not s or s[1] is None or cur is None:
                    row.fail("pop value pointer is not a vector slot")
                else:
                    row.expect_eq("value slot", s[1], cur)   # LEN was lowered by one: slot LEN(now) = LEN0-1
            elif "element" in roles:
                if v != ("init", (("P", 1), roles["element"]), 0):
                    row.fail("value pointer is not the element pointer cached at creation (got %s)" % (v,))
            else:
                s = slot_of(v)
                if not s or s[1] is None:
                    row.fail("value pointer is not a vector slot")
                elif fld("index") is None:
                    row.fail("the handle does not record its index at creation")
                else:
                    row.expect_eq("value slot", s[1], fld("index"))
            row.done()
        # consume
        cp = items.get("consume")
        from .bounds import range_handle_invariants as _rhi
        try:
            inv_, _r = _rhi(ctx, adt)
        except Exception:
            inv_ = None
        for tt, I in (ctx.arms(cp, entry_facts=inv_) or []) if cp else []:
            row = Row(res, ctx, "%s::consume" % name, cp, tt, I)
            st, fl = _final_len(I)
            sh = shifts(I)
            if nidx == 0:
                if real_mutations(I):
                    row.fail("pop must not touch the vector on consumption")
            elif "element" in roles and fld("last_index") is None:
                row.fail("the handle does not record the last index at creation")
            elif "element" in roles:
                # swap_remove
                row.expect_eq("final length", fl, fld("last_index"), st, "len")
                if len(sh) != 1:
                    row.fail("expected one copy of the last element, found %d" % len(sh), sub="copy")
                else:
                    c, s, d, n = sh[0]
                    if not s or s[1] is None:
                        row.fail("copy source is not a vector slot", c, "copy")
                    else:
                        row.expect_eq("copy source slot", s[1], fld("last_index"), c, "copy-src")
                    if c["dst"] != ("init", (("P", 1), roles["element"]), 0):
                        row.fail("copy destination is not the removed element's slot", c, "copy-dst")
                    cnt = c["n"] if c["ety"] != "u8" else (div_atom(c["n"], s[2]) if s and s[2] else None)
                    row.expect_eq("copied elements", cnt, ONE, c, "copy-count")
                    row.all_paths(c, "moving the last element into the removed slot (the removed value stays in the vector, the last one is lost)",
                                  zero=fld("last_index") - fld("index") if fld("index") is not None else None, same_slot=True, sub="copy-all-paths")
            elif fld("index") is None or fld("last_index") is None:
                row.fail("the handle does not record its index / last index at creation; consume cannot be matched against the Vec model")
            else:
                # remove
                row.expect_eq("final length", fl, fld("last_index"), st, "len")
                if len(sh) != 1:
                    row.fail("expected one left shift, found %d" % len(sh), sub="shift")
                else:
                    c, s, d, n = sh[0]
                    if not s or not d or s[1] is None or d[1] is None:
                        row.fail("shift does not address vector slots", c, "shift")
                    else:
                        row.expect_eq("shift source slot", s[1], fld("index") + ONE, c, "shift-src")
                        row.expect_eq("shift destination slot", d[1], fld("index"), c, "shift-dst")
                        row.expect_eq("shift count", n, fld("last_index") - fld("index"), c, "shift-count")
                        row.all_paths(c, "shifting the tail down over the removed slot", zero=fld("last_index") - fld("index"), sub="shift-all-paths")
            _no_other(row, I, allowed=("STORE", "COPY"))
            row.done()

    # ------------------------------------------------------------------ drain / splice Drop
    for im in fx.impls_of("ops::iter::Iterable"):
        adt = im["self_ty"].get("path")
        roles, fmap = fields.get(adt, ({}, {}))
        dp = None
        for im2 in fx.impls_of("core::ops::Drop"):
            if im2["self_ty"].get("path") == adt:
                dp = im2["items"][0]["path"]
        name = adt.split("::")[-1]
        if dp is None:
            res.coverage_lost(adt, "no Drop impl for range handle")
            continue
        has_replacement = any("ExactSizeIterator" in w for w in im.get("where", []))
        inv, _ = range_handle_invariants(ctx, adt)
        for tt, I in (ctx.arms(dp, entry_facts=inv) or []):
            row = Row(res, ctx, "%s::drop" % name, dp, tt, I)

            def F(k):
                return Poly.atom(("init", (("P", 1), k), 0))
            start_k = [k for k in roles.get("index", []) if not is_cursor_key(ctx, adt, k)]
            ol_k = roles.get("original_len")
            if not start_k or ol_k is None:
                row.fail("handle fields (start, original length) not identified")
                row.done()
                continue
            start, OL = F(start_k[0]), F(ol_k)
            sh = shifts(I)
            st, fl = _final_len(I)
            ds = [e for e in I.all_effects(("DESTROY",))]
            it_index = [k for k in roles.get("index", []) if is_cursor_key(ctx, adt, k)]
            it_end = [k for k in roles.get("end", []) if is_cursor_key(ctx, adt, k)]
            # destroy exactly [iter.index, iter.end)
            for d in ds:
                s = slot_of(d["ptr"])
                if not s or s[1] is None:
                    row.fail("destroyed range does not start at a vector slot", d, "destroy")
                    continue
                if it_index and it_end:
                    row.expect_eq("first destroyed slot", s[1], F(it_index[0]), d, "destroy-first")
                    row.expect_eq("destroyed count", d["n"], F(it_end[0]) - F(it_index[0]), d, "destroy-count")
            if not ds:
                row.fail("unyielded elements are not destroyed", sub="destroy")
            if not sh:
                row.fail("the tail is not moved", sub="tail")
                row.done()
                continue
            c, s, d, n = sh[0]
            if not s or not d or s[1] is None or d[1] is None or n is None:
                row.fail("tail move does not address vector slots", c, "tail")
                row.done()
                continue
            E = s[1]          # the term used as the end of the removed range
            row.expect_eq("tail count", n, OL - E, c, "tail-count")
            # the unyielded elements are destroyed on every path to the tail move - unless there are none (iter.index == iter.end on that edge) or the
            # element type has no destructor (drop_fn is None); an element size of 0 is no excuse (zero-sized types can have drop glue)
            if ds and it_index and it_end:
                cnt = F(it_end[0]) - F(it_index[0])
                dg = {d_.gid for d_ in ds}

                def excused(p_, g_, cnt=cnt):
                    fs = edge_facts(I, p_, g_)
                    if implies(fs, ("eq0", cnt)):
                        return True
                    for f_ in fs:
                        if f_[0] in ("eq0", "ne0"):
                            dats = [a_ for a_ in f_[1].atoms() if isinstance(a_, tuple) and a_[0] == "discr" and "drop_fn" in repr(a_)]
                            if len(dats) == 1:
                                at_ = Poly.atom(dats[0])
                                # Option has two variants: `discr == 0`, or `discr != 1`
                                if (f_[0] == "eq0" and f_[1] in (at_, -at_)) or (f_[0] == "ne0" and f_[1] in (at_ - ONE, ONE - at_)):
                                    return True
                        if f_[0] == "isfalse" and "needs_drop" in repr(f_[1]):
                            return True
                    return False
                if not every_path_to(I, c.gid, lambda g_: g_ in dg, ok_edge=excused):
                    row.fail("a path reaches the tail move without destroying the unyielded elements although there may be some and the element type may have a "
                             "destructor (they are overwritten or dropped out of the vector: never destroyed)", c, "destroy-all-paths")
            for dd in ds:
                if not before_in(I, dd, c) and I.reachable_from(c.gid) & {dd.gid}:
                    row.fail("the tail is moved before the unyielded elements are destroyed: the move may overwrite them, live tail elements are then destroyed instead",
                             c, "destroy-before-move")
                    break
            if not has_replacement:
                row.expect_eq("tail destination slot", d[1], start, c, "tail-dst")
                row.expect_eq("final length", fl, OL - (E - start), st, "len")
                if len(sh) != 1:
                    row.fail("expected one tail move, found %d" % len(sh), sub="tail")
            else:
                _splice_row(row, I, sh, start, OL, E, st, fl, F, roles)
            # E must denote the range end given at creation (either a dedicated field or the iterator's end cursor)
            endf = [F(k) for k in roles.get("end", [])]
            if E not in endf:
                row.fail("tail source slot %s is not the range end recorded at creation" % E, c, "tail-src")
            row.done()

    # ------------------------------------------------------------------ element pointers
    for p in (RAW + "get_unchecked", RAW + "get_unchecked_mut"):
        for tt, I in arms(p):
            row = Row(res, ctx, "slot-pointer", p, tt, I)
            rets = I.all_effects(("RETURN",))
            s = slot_of(rets[0]["value"]) if rets else None
            if not s or s[1] is None:
                row.fail("returned pointer is not BASE + index*STRIDE (got %s)" % (rets[0]["value"] if rets else None,))
            else:
                row.expect_eq("slot", s[1], Poly.atom(("param", 2)))
                if s[2] != ("STRIDE", s[0]):
                    row.fail("stride is not the element layout size of this vector")
            row.done()
    for p in ("any_vec_ptr::utils::element_ptr_at", "any_vec_ptr::utils::element_mut_ptr_at"):
        for tt, I in arms(p):
            row = Row(res, ctx, "slot-pointer", p, tt, I)
            rets = I.all_effects(("RETURN",))
            s = slot_of(rets[0]["value"]) if rets else None
            if not s or s[1] is None:
                row.fail("returned pointer is not a slot of the vector (got %s)" % (rets[0]["value"] if rets else None,))
            else:
                row.expect_eq("slot", s[1], Poly.atom(("param", 2)))
                _stride_matches_arm(row, s, tt)
            row.done()

    # ------------------------------------------------------------------ views
    _view_rows(res, ctx, arms)
    # ------------------------------------------------------------------ iter / iter_mut
    for p in ("any_vec::AnyVec::iter", "any_vec::AnyVec::iter_mut"):
        for tt, I in arms(p):
            row = Row(res, ctx, "iter-range", p, tt, I)
            rets = I.all_effects(("RETURN",))
            tree = rets[0]["value"] if rets else None
            fm = dict(tree[1]) if isinstance(tree, tuple) and tree and tree[0] == "tree" else {}
            L0 = as_poly(entry_len(I, I.g.entry, (("P", 1), ("raw", "len"))))
            ints = sorted([(k, v) for k, v in fm.items() if isinstance(v, Poly)], key=lambda kv: repr(kv[0]))
            vals = {k[-1]: v for k, v in ints}
            if vals.get("index") != Poly() or vals.get("end") != L0:
                row.fail("iterator must cover [0, LEN): got index=%s end=%s" % (vals.get("index"), vals.get("end")))
            row.done()
    # ------------------------------------------------------------------ capacity rows
    _capacity_rows(res, ctx, arms)
    _clone_row(res, ctx, arms)
    _tempvalue_rows(res, ctx, ctors, ctor_by_adt)
    _swap_rows(res, ctx, arms)
    _misc_rows(res, ctx, arms)
    _bytes_ptr_rows(res, ctx, ctors, ctor_by_adt)
    _into_range_row(res, ctx, arms)
    _backend_growth_rows(res, ctx, arms)
    _unjudged_mutations(res, ctx)
    return res


def _unjudged_mutations(res, ctx):
    """inventory: every effect on a vector reachable from the public API sits inside a function that some row of this rule judges (or in a function
    expanded from one). A new public operation that writes a vector (say an allocation-reusing `clone_from`) has no row and is reported instead of being
    silently outside the model."""
    judged = JUDGED.get(id(res), set())
    seen = set()
    for f in ctx.public_safe_fns():
        fpath = f["path"]
        for tt, I in ctx.arms(fpath) or []:
            for e in real_mutations(I):
                if e.kind == "STORE" and not is_len_path(e["path"]):
                    continue
                inst = e.node.inst
                ok = False
                chain = []
                while inst is not None:
                    chain.append(inst.path())
                    if inst.path() in judged:
                        ok = True
                        break
                    inst = inst.parent
                key = (chain[0], e.kind)
                if key in seen:
                    continue
                seen.add(key)
                res.inst(sample={"public_entry": fpath, "effect": e.kind, "in": chain[0], "judged_by_a_row": ok}, func=chain[0])
                res.ok()
                if not ok:
                    # an operation the Vec model has no row for (a new mutator): not an alarm - it is judged by the operation-independent rules only
                    # (R-REPINV slot accounting, R-ORDER typestates, R-BOUNDS, R-OVERLAP, R-UNITS, R-TYPEGUARD, R-PROVENANCE, R-ARITH); recorded in the evidence
                    note = "no model row: %s performs %s (reached from %s); decided by the operation-independent rules only" % (chain[0], e.kind, fpath)
                    if note not in res.notes and len(res.notes) < 40:
                        res.notes.append(note)


def _splice_row(row, I, sh, start, OL, E, st, fl, F, roles):
    c, s, d, n = sh[0]
    # k := replacement length as reported
    ul = [e for e in I.all_effects(("USER",)) if e["what"] == "iter-len"]
    if not ul:
        row.fail("replacement length is never queried", sub="len")
        return
    K = None
    for a in (d[1] - start).atoms():
        if isinstance(a, tuple) and a and a[0] == "userlen":
            K = Poly.atom(a)
    if K is None:
        row.fail("tail destination %s is not start + replacement length" % d[1], c, "tail-dst")
        return
    row.expect_eq("tail destination slot", d[1], start + K, c, "tail-dst")
    # reservation: additional = (start + K + (OL - E)) - LEN(now = start), through AnyVecRaw::reserve (n = needed - CAP under CAP < needed)
    rs = I.all_effects(("RESERVE",))
    if len(rs) != 1:
        row.fail("expected one reservation, found %d" % len(rs), sub="reserve")
    else:
        r = rs[0]
        cap = as_poly(r["cap"])
        needed = as_poly(r["n"]) + cap
        want = start + K + (OL - E)
        # LEN(now) is the lowered length == start (by construction); accept LEN symbol or start
        lp = len_path_of_mem(r["mem"])
        Lnow = Poly.atom(("init", lp, 0)) if lp else None
        ok = needed == want or implies(r["facts"], ("eq0", _canon(needed - want)))
        if not ok:
            row.fail("reserved total is %s, the Vec model requires start + k + tail = %s (reserve takes the number of ADDITIONAL elements)"
                     % (needed, want), r, "reserve")
        if not implies(r["facts"], cmp_fact("Lt", cap, needed)):
            row.fail("expand is not guarded by CAP < needed", r, "reserve-guard")
        # reservation precedes every pointer derivation / destroy / move
        for e in I.all_effects(("DESTROY", "COPY", "MOVE_INTO")):
            if not _before(I, r, e) and _reach(I, e, r):
                row.fail("reservation happens after %s" % e.kind, r, "reserve-order")
                break
    # closing the gap when the iterator yielded less than it reported: the tail now lives at start + K (where the first move put it) and goes to
    # start + written, all of it
    for (c2, s2, d2, n2) in sh[1:]:
        if not s2 or not d2 or s2[1] is None or d2[1] is None or n2 is None:
            row.fail("gap-closing move does not address vector slots", c2, "gap")
            continue
        row.expect_eq("gap-closing source slot (where the tail was moved to)", s2[1], start + K, c2, "gap-src")
        row.expect_eq("gap-closing count", n2, OL - E, c2, "gap-count")
        rest2 = d2[1] - start
        if rest2 != K and not any(isinstance(a, tuple) and a and a[0] == "phi" for a in rest2.atoms()):
            row.fail("gap-closing destination %s is not start + written" % d2[1], c2, "gap-dst")
    # written items: final length must count what was written
    mi = I.all_effects(("MOVE_INTO",))
    if len(mi) != 1:
        row.fail("expected one write site for replacement items, found %d" % len(mi), sub="write")
    if fl is None:
        row.fail("final length is not set on every path", sub="len")
    else:
        tail = OL - E
        # acceptable: start + K + tail (trusting len()) is checked by R-BOUNDLOOP; here the polynomial must be start + X + tail
        rest = fl - start - tail
        if rest != K and not any(isinstance(a, tuple) and a and a[0] == "phi" for a in rest.atoms()):
            row.fail("final length %s is not start + written + tail" % fl, st, "len")


def _before(I, a, b):
    """effect a occurs before b on every path reaching b (dominance; callee-internal effects count at their call site)"""
    return before_in_collapsed(I, a, b)


def _reach(I, a, b):
    return b.gid in I.reachable_from(a.gid)


def _callee_of(ctx, entry, pred, res):
    """first local callee of `entry` satisfying pred (finds helpers by reachability, not by name)"""
    f = ctx.fn(entry)
    if f is None:
        res.coverage_lost(entry, "public anchor missing")
        return None
    seen = set()
    work = [f]
    while work:
        g = work.pop(0)
        for b in g["blocks"]:
            t = b["term"]
            if t["k"] == "call" and "indirect" not in t["callee"]:
                cp = t["callee"]["path"]
                cf = ctx.fn(cp)
                if cf is None or cp in seen:
                    continue
                seen.add(cp)
                if pred(cf):
                    return cp
                work.append(cf)
    res.coverage_lost(entry, "implementing helper not found")
    return None


class RuleResultDummy:
    def coverage_lost(self, *a, **k):
        pass


def _has_generic_value(f):
    st = f.get("impl_self_ty", {})
    return any(t.get("k") == "param" for t in f["sig"]["inputs"]) and st.get("path") == "any_vec_raw::AnyVecRaw"


def _size_ok(row, mi, s):
    """size argument of move_into is the element size of the destination vector (arm-appropriate)"""
    size = as_poly(mi["size"])
    ok = False
    if s[2] is not None and size == Poly.atom(s[2]):
        ok = True
    if s[2] is None:
        ats = size.atoms()
        ok = len(ats) == 1 and list(ats)[0][0] in ("STRIDE", "SIZEOF")
    if not ok:
        row.fail("element size passed to move_into is %s, slot stride is %s" % (size, s[2]), mi, "size")


def _stride_matches_arm(row, s, tt):
    if s[2] is None:
        return
    erased = any(tt.values()) if tt else None
    if erased is True and s[2][0] != "STRIDE":
        row.fail("erased arm must use the run-time element size, uses %s" % (s[2],))
    if erased is False and s[2][0] != "SIZEOF":
        row.fail("typed arm must use size_of of the known element type, uses %s" % (s[2],))


def _no_other(row, I, allowed):
    for e in real_mutations(I):
        if e.kind not in allowed:
            row.fail("unexpected effect %s at %s" % (e.kind, e.where()), e, "extra")
            return
        if e.kind == "STORE" and not is_len_path(e["path"]):
            row.fail("unexpected store to %s" % (e["path"],), e, "extra")
            return


# ---------------------------------------------------------------------------------------------------- views

def _view_rows(res, ctx, arms):
    AV = "any_vec::AnyVec::"
    TY = "any_vec_typed::AnyVecTyped::"
    rows = [
        (AV + "as_bytes", "bytes", "live"), (AV + "as_bytes_mut", "bytes", "live"), (AV + "spare_bytes_mut", "bytes", "spare"),
        (TY + "as_slice", "elems", "live"), (TY + "as_mut_slice", "elems", "live"), (TY + "spare_capacity_mut", "elems", "spare"),
    ]
    for p, unit, part in rows:
        for tt, I in arms(p):
            row = Row(res, ctx, "view:" + p.split("::")[-1], p, tt, I)
            vs = I.all_effects(("VIEW",))
            if len(vs) != 1:
                row.fail("expected one slice construction, found %d" % len(vs))
                row.done()
                continue
            v = vs[0]
            pp = ptr_parts(v["ptr"])
            mp = base_mem(pp[0]) if pp else None
            if mp is None:
                row.fail("view does not start from the storage pointer", v)
                row.done()
                continue
            lp = len_path_of_mem(mp)
            L = as_poly(entry_len(I, I.g.entry, lp))
            CAP = None
            for a in as_poly(v["n"]).atoms():
                if isinstance(a, tuple) and a and a[0] == "CAP":
                    CAP = Poly.atom(a)
            if unit == "bytes":
                S = Poly.atom(("STRIDE", mp))
            else:
                S = None
                for a in list(pp[1].atoms()) + list(as_poly(v["n"]).atoms()):
                    if isinstance(a, tuple) and a and a[0] == "SIZEOF":
                        S = Poly.atom(a)
                if S is None:
                    S = Poly.atom(("SIZEOF", ctx.tparam(p, 0)))
            off_want = Poly() if part == "live" else L * S
            row.expect_eq("view start offset (bytes)", pp[1], off_want, v, "start")
            if part == "live":
                n_want = L * S if unit == "bytes" else L
            else:
                if CAP is None:
                    row.fail("spare view length does not mention the capacity", v, "len")
                    row.done()
                    continue
                n_want = (CAP - L) * S if unit == "bytes" else (CAP - L)
            row.expect_eq("view length", v["n"], n_want, v, "len")
            T_ = ctx.tparam(p, 0)
            if unit == "elems" and v["ety"] not in (T_, "core::mem::MaybeUninit<%s>" % T_):
                row.fail("typed view element type is %s" % v["ety"], v, "type")
            row.done()
    # set_len stores its argument and nothing else
    for p in ("any_vec_raw::AnyVecRaw::set_len",):
        for tt, I in arms(p):
            row = Row(res, ctx, "set_len", p, tt, I)
            st, fl = _final_len(I)
            row.expect_eq("stored length", fl, Poly.atom(("param", 2)), st)
            _no_other(row, I, allowed=("STORE",))
            row.done()


# ---------------------------------------------------------------------------------------------------- capacity

def _capacity_rows(res, ctx, arms):
    RAW = "any_vec_raw::AnyVecRaw::"
    for p, how in ((RAW + "reserve", "expand"), (RAW + "reserve_exact", "expand_exact")):
        for tt, I in arms(p):
            row = Row(res, ctx, p.split("::")[-1], p, tt, I)
            L0 = as_poly(entry_len(I, I.g.entry, (("P", 1), ("len",))))
            add = Poly.atom(("param", 2))
            rs = I.all_effects(("RESERVE",))
            if len(rs) != 1:
                row.fail("expected one growth site, found %d" % len(rs))
                row.done()
                continue
            r = rs[0]
            cap = as_poly(r["cap"])
            if r["how"] != how:
                row.fail("growth through %s, expected %s" % (r["how"], how), r)
            row.expect_eq("requested additional capacity", r["n"], L0 + add - cap, r, "amount")
            if not implies(r["facts"], cmp_fact("Lt", cap, L0 + add)):
                row.fail("growth is not guarded by CAP < LEN + additional (no-op when sufficient)", r, "guard")
            # ... and happens on every path that needs it: a return without growth only when the capacity suffices
            for ret in I.all_effects(("RETURN",)):
                def ok_at(g, r=r):
                    return g == r.gid or implies(I.facts_at(g), cmp_fact("Le", L0 + add, cap))
                if not every_path_to(I, ret.gid, ok_at):
                    row.fail("a path returns without growing although CAP >= LEN + additional is not established (capacity promise broken for some element layouts)", ret, "all-paths")
                    break
            _no_other(row, I, allowed=("RESERVE",))
            row.done()
    p = RAW + "shrink_to_fit"
    for tt, I in arms(p):
        row = Row(res, ctx, "shrink_to_fit", p, tt, I)
        L0 = as_poly(entry_len(I, I.g.entry, (("P", 1), ("len",))))
        rs = I.all_effects(("RESERVE",))
        if len(rs) != 1 or rs[0]["how"] != "resize":
            row.fail("expected one resize call")
        else:
            row.expect_eq("new capacity", as_poly(rs[0]["n"]), L0, rs[0], "amount")
        _no_other(row, I, allowed=("RESERVE",))
        row.done()
    # shrink_to: decided per case (min_capacity > LEN / min_capacity <= LEN), so `max` may be spelled any way
    p = RAW + "shrink_to"
    for tt0, I0 in arms(p)[:1]:
        L0 = as_poly(entry_len(I0, I0.g.entry, (("P", 1), ("len",))))
        m = Poly.atom(("param", 2))
        for case, ef, want in (("min_capacity > len", [("ge0", m - L0 - ONE)], m), ("min_capacity <= len", [("ge0", L0 - m)], L0)):
            for tt, I in ctx.arms(p, entry_facts=ef) or []:
                row = Row(res, ctx, "shrink_to", p, tt, I)
                rs = I.all_effects(("RESERVE",))
                if len(rs) != 1 or rs[0]["how"] != "resize":
                    row.fail("expected one resize call (case %s)" % case)
                    row.done()
                    continue
                r = rs[0]
                n = as_poly(r["n"])
                cap = as_poly(r["cap"])
                if n != want:
                    row.fail("new capacity is %s when %s, the Vec model requires max(LEN, min_capacity) = %s" % (n, case, want), r, "amount")
                # never grow: resize only under n < CAP (or n <= CAP)
                if not (implies(r["facts"], cmp_fact("Le", n, cap))):
                    row.fail("resize(max(LEN, min_capacity)) is not guarded by the current capacity: shrink_to may grow the vector", r, "never-grow")
                _no_other(row, I, allowed=("RESERVE",))
                row.done()


def _clone_row(res, ctx, arms):
    # the public Clone impl: every element goes through the clone function - on every path, and nothing is copied bitwise into the new storage
    pp = "<any_vec::AnyVec as core::clone::Clone>::clone"
    for tt, I in arms(pp):
        row = Row(res, ctx, "clone:public", pp, tt, I)
        L0 = as_poly(entry_len(I, I.g.entry, (("P", 1), ("raw", "len"))))
        cl = I.all_effects(("CLONE",))
        if len(cl) != 1:
            row.fail("expected exactly one call of the clone function, found %d" % len(cl), sub="clone")
        else:
            row.all_paths(cl[0], "cloning the elements through the clone function (a drop-less element type can still have a hand-written Clone)", zero=L0,
                          sub="clone-all-paths")
        for c in I.all_effects(("COPY",)):
            d = ptr_parts(c["dst"])
            if d and base_mem(d[0]) is not None and base_mem(d[0])[0][0] == "L":
                row.fail("elements are copied bitwise (%s) into the clone's storage: Clone::clone is not called for them" % c["prim"], c, "bitwise")
                break
        row.done()
    p = "any_vec_raw::AnyVecRaw::clone"
    for tt, I in arms(p):
        row = Row(res, ctx, "clone", p, tt, I)
        L0 = as_poly(entry_len(I, I.g.entry, (("P", 1), ("len",))))
        bs = I.all_effects(("BUILD",))
        cl = I.all_effects(("CLONE",))
        if len(bs) != 1:
            row.fail("expected exactly one fresh storage (MemBuilder::build), found %d" % len(bs), sub="build")
        else:
            if bs[0]["layout"] != ("LAYOUT", (("P", 1), ("mem",))):
                row.fail("new storage is not built with the source's element layout (got %s)" % (bs[0]["layout"],), bs[0], "layout")
        if len(cl) != 1:
            row.fail("expected exactly one call of the clone function, found %d" % len(cl), sub="clone")
        else:
            c = cl[0]
            s, d = ptr_parts(c["src"]), ptr_parts(c["dst"])
            if not s or base_mem(s[0]) != (("P", 1), ("mem",)) or s[1].m:
                row.fail("clone source is not the source storage base", c, "src")
            if not d or base_mem(d[0]) is None or base_mem(d[0])[0][0] != "L" or d[1].m:
                row.fail("clone destination is not the new vector's storage base", c, "dst")
            row.expect_eq("cloned count", c["n"], L0, c, "count")
            if c["fn"] != ("param", 2):
                row.fail("clone function is not the one passed by the caller", c, "fn")
            row.all_paths(c, "cloning the elements (the clone's length then covers slots that hold no value)", zero=L0, sub="clone-all-paths")
        # room for LEN(source) elements is made before cloning: expand(needed - CAP) only under CAP < needed, needed = LEN(source)
        rs = I.all_effects(("RESERVE",))
        if len(rs) != 1:
            row.fail("expected exactly one growth site for the new storage, found %d" % len(rs), sub="reserve")
        else:
            r = rs[0]
            cap = as_poly(r["cap"])
            needed = as_poly(r["n"]) + cap
            lpd = len_path_of_mem(r["mem"])
            if not (needed == L0 or implies(r["facts"], ("eq0", _canon(needed - L0)))):
                row.fail("the new storage is grown to %s elements, expected LEN(source) = %s" % (needed, L0), r, "reserve-amount")
            if not implies(r["facts"], cmp_fact("Lt", cap, L0)):
                row.fail("the new storage is grown without / with the wrong capacity test (needs CAP < LEN(source)): fixed-capacity backends cannot expand, and a too-small "
                         "fresh storage must be grown", r, "reserve-guard")
            for c in cl:
                def ok_at(g, r=r, cap=cap):
                    return g == r.gid or implies(I.facts_at(g), cmp_fact("Le", L0, cap))
                if not every_path_to(I, c.gid, ok_at):
                    row.fail("a path reaches the clone call without room for LEN(source) elements having been made or shown to exist (CAP >= LEN)", c, "reserve-all-paths")
        rets = I.all_effects(("RETURN",))
        tree = rets[0]["value"] if rets else None
        fm = dict(tree[1]) if isinstance(tree, tuple) and tree and tree[0] == "tree" else {}
        if fm.get(("len",)) != L0:
            row.fail("the clone's length is %s, expected LEN(source)" % (fm.get(("len",)),), sub="len")
        row.done()


# ---------------------------------------------------------------------------------------------------- into_range

def _into_range_row(res, ctx, arms):
    """one interpretation per pair of Bound variants (the entry facts fix both discriminants, so every match is decided and the returned Range is exact):
    start = i | i+1 | 0 ; end = i+1 | i | len ; and the function only returns under start <= end <= len"""
    from ..interp import implies
    p = "into_range"
    if not arms(p):
        return
    VAR = {0: "Included", 1: "Excluded", 2: "Unbounded"}
    L = Poly.atom(("param", 1))

    def bound(which):
        return ("bound", which + "_bound", (("A", 2), ()))

    def payload(which, variant):
        return Poly.atom(("init", (("D", ("fld", bound(which), ("as:" + variant, "0"))), ()), 0))
    want = {("start", "Included"): lambda i: i, ("start", "Excluded"): lambda i: i + ONE, ("start", "Unbounded"): lambda i: Poly(),
            ("end", "Included"): lambda i: i + ONE, ("end", "Excluded"): lambda i: i, ("end", "Unbounded"): lambda i: L}
    seen = {}        # (which, variant) -> [(value, arm, I)]
    guards = []
    for sv in range(3):
        for ev in range(3):
            ef = [("eq0", Poly.atom(("discr", bound("start"))) - Poly.const(sv)), ("eq0", Poly.atom(("discr", bound("end"))) - Poly.const(ev))]
            for tt, I in ctx.arms(p, entry_facts=ef) or []:
                rets = I.all_effects(("RETURN",))
                for r in rets:
                    v = r["value"]
                    if not (isinstance(v, tuple) and v and v[0] == "range"):
                        seen.setdefault(("start", VAR[sv]), []).append((None, tt, I))
                        seen.setdefault(("end", VAR[ev]), []).append((None, tt, I))
                        continue
                    seen.setdefault(("start", VAR[sv]), []).append((as_poly(v[1]), tt, I))
                    seen.setdefault(("end", VAR[ev]), []).append((as_poly(v[2]), tt, I))
                    guards.append((VAR[sv], VAR[ev], as_poly(v[1]), as_poly(v[2]), r["facts"], tt, I))
    for key, fnw in sorted(want.items()):
        vals = seen.get(key)
        tt, I = (vals[0][1], vals[0][2]) if vals else arms(p)[0]
        row = Row(res, ctx, "into_range:%s/%s" % key, p, tt, I)
        if not vals:
            row.fail("no value is computed for the %s bound in the %s case" % key)
            row.done()
            continue
        w = fnw(payload(*key))
        for v, _, _ in vals:
            if v is None or v != w:
                row.fail("%s bound in the %s case is %s, the Vec model requires %s" % (key[0], key[1], v, w))
                break
        row.done()
    # the asserts: a Range is only returned when start <= end and end <= len
    if guards:
        tt, I = guards[0][5], guards[0][6]
        row = Row(res, ctx, "into_range:asserts", p, tt, I)
        for svn, evn, sv_, ev_, facts, _, _ in guards:
            if not implies(facts, ("ge0", ev_ - sv_)):
                row.fail("a range with start > end is returned (%s / %s bounds): the `start <= end` check is missing" % (svn, evn), sub="order")
                break
            if not implies(facts, ("ge0", L - ev_)):
                row.fail("a range with end > len is returned (%s / %s bounds): the `end <= len` check is missing" % (svn, evn), sub="len")
                break
        row.done()


# ---------------------------------------------------------------------------------------------------- backend growth policy

def _backend_growth_rows(res, ctx, arms):
    fx = ctx.fx
    # HeapMem::expand -> resize(max(2*size, size+additional))
    for im in fx.impls_of("mem::Mem"):
        if im["self_ty"].get("path") != "mem::heap::HeapMem":
            continue
        items = {it["name"]: it["path"] for it in im["items"]}
        p = items.get("expand")
        if not p:
            res.coverage_lost("mem::heap::HeapMem", "Mem::expand override not found (growth would panic)")
            continue
        for tt, I in arms(p):
            row = Row(res, ctx, "heap-expand", p, tt, I)
            ent = [e for e in I.all_effects(("ENTER",)) if e["callee"].endswith("::resize")]
            size = Poly.atom(("init", (("P", 1), ("size",)), 0))
            add = Poly.atom(("param", 2))
            if len(ent) != 1:
                row.fail("expand must resize exactly once")
            else:
                # decided per case: with D the doubling term (2 x size, saturating or plain) and R = size + additional,
                # the new size must be R when R > D and D when R <= D - however `max` is spelled
                R = size + add
                verdicts = []
                for D in (Poly.atom(("saturating_mul",) + tuple(sorted([size, Poly.const(2)], key=repr))), size * Poly.const(2)):
                    got = {}
                    for case, ef, want in (("R>D", [("ge0", R - D - ONE)], R), ("R<=D", [("ge0", D - R)], D)):
                        for tt2, I2 in ctx.arms(p, entry_facts=ef) or []:
                            e2 = [e for e in I2.all_effects(("ENTER",)) if e["callee"].endswith("::resize")]
                            got[case] = (as_poly(e2[0]["args"][1]) if len(e2) == 1 else None, want)
                    verdicts.append(got)
                if not any(all(g == w for g, w in v.values()) and len(v) == 2 for v in verdicts):
                    v = verdicts[0]
                    gR, gD = v.get("R>D", (None, None))[0], v.get("R<=D", (None, None))[0]
                    if gR != R:
                        row.fail("the requested size (size + additional) is not the new size when it exceeds twice the current size (got %s)" % gR, ent[0], "request")
                    if not any(vv.get("R<=D", (None, 0))[0] == vv.get("R<=D", (0, None))[1] for vv in verdicts):
                        row.fail("growth is not geometric: when size + additional <= 2 x size the new size is %s, expected 2 x size "
                                 "(reallocations would be linear in the number of pushes)" % gD, ent[0], "doubling")
            row.done()
    # default expand_exact -> resize(size + additional)
    p = "mem::MemResizable::expand_exact"
    for tt, I in arms(p):
        row = Row(res, ctx, "expand_exact", p, tt, I)
        rs = I.all_effects(("RESERVE",))
        if len(rs) != 1 or rs[0]["how"] != "resize":
            row.fail("expand_exact must resize exactly once")
        else:
            row.expect_eq("new size", rs[0]["n"], as_poly(rs[0]["cap"]) + Poly.atom(("param", 2)), rs[0])
        row.done()
    # with_capacity: build_with_size -> resize(capacity)
    for im in fx.impls_of("mem::MemBuilderSizeable"):
        items = {it["name"]: it["path"] for it in im["items"]}
        p = items.get("build_with_size")
        for tt, I in arms(p) if p else []:
            row = Row(res, ctx, "build_with_size", p, tt, I)
            ent = [e for e in I.all_effects(("ENTER",)) if e["callee"].endswith("::resize")]
            cap = Poly.atom(("param", 3))

            def enough(r):
                """the returned storage is known to hold the requested capacity: a dominating `capacity <= size()` of a fixed-capacity backend"""
                caps = {a for ff in r["facts"] if ff[0] == "ge0" for a in ff[1].atoms() if isinstance(a, tuple) and a and a[0] in ("CAP", "cparam")}
                cands = [Poly.atom(c) for c in caps]
                v = r["value"]
                if isinstance(v, tuple) and v and v[0] == "tree":
                    sz = dict(v[1]).get(("size",))
                    if isinstance(sz, Poly):
                        cands.append(sz)
                return any(implies(r["facts"], cmp_fact("Le", cap, c)) for c in cands)
            rets_ = I.all_effects(("RETURN",))
            if not ent and rets_ and all(enough(r) for r in rets_):
                pass
            elif len(ent) != 1 or as_poly(ent[0]["args"][1]) != cap:
                row.fail("with_capacity must resize the fresh storage to exactly the requested capacity (or, on a fixed-capacity backend, establish "
                         "capacity <= size() before returning it)")
            else:
                for r in I.all_effects(("RETURN",)):
                    if not every_path_to(I, r.gid, lambda g: g == ent[0].gid):
                        row.fail("a path returns the fresh storage without resizing it to the requested capacity (capacity() < requested for some element layouts)",
                                 r, "all-paths")
                        break
            row.done()


# ---------------------------------------------------------------------------------------------------- TempValue<Op>: drop / move_into finish the removal

def _tempvalue_rows(res, ctx, ctors, ctor_by_adt):
    from .bounds import handle_roles
    fx = ctx.fx
    roles_all = handle_roles(ctx)
    targets = []
    for im in fx.impls:
        if im["self_ty"].get("path") != "ops::temp::TempValue":
            continue
        for it in im["items"]:
            if im.get("trait") == "core::ops::Drop" and it["name"] == "drop":
                targets.append(("drop", it["path"], "P"))
            if im.get("trait") == "any_value::AnyValueSizeless" and it["name"] == "move_into":
                targets.append(("move_into", it["path"], "A"))
    if len(targets) < 2:
        res.coverage_lost("ops::temp::TempValue", "Drop / move_into of the removal handle not found")
    for what, p, rootk in targets:
        for im in fx.impls_of("ops::temp::Operation"):
            adt = im["self_ty"].get("path")
            name = adt.split("::")[-1]
            roles = roles_all.get(adt, {})
            nidx = ctors.get(ctor_by_adt.get(adt), (None, None))[1]
            for tt, I in ctx.arms(p, subst={ctx.tparam(p, 0): im["self_ty"]}) or []:
                row = Row(res, ctx, "TempValue::%s:%s" % (what, name), p, tt, I)
                st, fl = _final_len(I)
                if nidx == 0:
                    if len_stores(I):
                        row.fail("pop must not change the length again when its handle is consumed")
                else:
                    lk = roles.get("last_index", [None])[0]
                    if lk is None:
                        row.fail("the handle does not record the last index")
                    elif fl is None:
                        row.fail("the removal is not completed on every normal path: no length update dominates the return (elements after the index stay hidden "
                                 "or the gap stays open)", sub="completes")
                    else:
                        ats = [a for a in fl.atoms() if isinstance(a, tuple) and a[0] == "init" and a[1][1][-len(lk) - 1:] == ("op",) + tuple(lk)]
                        if not ats or fl != Poly.atom(ats[0]):
                            row.fail("final length is %s, expected the recorded last index" % fl, st, "len")
                    if "element" not in roles and not shifts(I):
                        row.fail("the tail is not shifted over the removed slot", sub="shift")
                if what == "drop":
                    ds = I.all_effects(("DESTROY",))
                    if not ds:
                        row.fail("the element is not destroyed when its handle is dropped", sub="destroy")
                    else:
                        rets = I.all_effects(("RETURN",))
                        # typed arm: unconditional; erased arm: under Some(drop_fn)
                        pass
                else:
                    cps = I.all_effects(("COPY",))
                    outs = [c for c in cps if ptr_parts(c["dst"]) and isinstance(ptr_parts(c["dst"])[0], tuple) and ptr_parts(c["dst"])[0][0] == "param"]
                    if not outs:
                        row.fail("the value bytes are not copied to the destination", sub="copy-out")
                    elif not all(any(before_in(I, c, r) for c in outs) for r in I.all_effects(("RETURN",))):
                        row.fail("a path through move_into returns without copying the value out", outs[0], "copy-out")
                row.done()


# ---------------------------------------------------------------------------------------------------- swap_unchecked: three dispatch arms

def _swap_rows(res, ctx, arms):
    fx = ctx.fx
    default = "any_value::AnyValueTypelessMut::swap_unchecked"
    # the default method and every override of it (an impl may bring its own swap)
    targets = [(default, None)]
    for im in fx.impls_of("any_value::AnyValueTypelessMut"):
        for it in im["items"]:
            if it["name"] == "swap_unchecked":
                # is the implementing type statically typed or erased?
                erased = None
                for im2 in fx.impls_of("any_value::AnyValueSizeless"):
                    if im2["self_ty"].get("s") == im["self_ty"].get("s"):
                        for it2 in im2["items"]:
                            if it2["name"] == "Type" and "ty" in it2:
                                erased = it2["ty"].get("path") == "any_value::Unknown"
                targets.append((it["path"], erased))
    for p, fixed_self in targets:
      for tt, I in arms(p):
        row = Row(res, ctx, "swap_unchecked" + ("" if p == default else ":" + (ctx.fn(p).get("impl_self_ty", {}).get("path", "?").split("::")[-1])), p, tt, I)
        sw = I.all_effects(("SWAP",))
        casts = I.all_effects(("UNCHECKED_CAST",))
        unk = [e for e in I.all_effects(("UNKNOWN",))]
        keys = sorted(tt)
        self_erased = tt.get("<Self as any_value::AnyValueSizeless>::Type") if fixed_self is None else fixed_self
        OT = "<%s as any_value::AnyValueSizeless>::Type" % ctx.tparam(p, -1)
        other_erased = tt.get(OT)
        if fixed_self is not None and other_erased is None and len(tt) == 1:
            other_erased = list(tt.values())[0]
        if len(sw) != 1:
            row.fail("expected exactly one swap primitive, found %d (%s)" % (len(sw), [u["what"] for u in unk][:2]))
            row.done()
            continue
        s = sw[0]
        if self_erased and other_erased:
            a, b = ptr_parts(s["a"]), ptr_parts(s["b"])
            ok = s["prim"] == "swap_nonoverlapping" and s["ety"] == "u8" and a and b and a[0][0] == "VBYTES" and b[0][0] == "VBYTES" and a[0] != b[0] and not a[1].m and not b[1].m
            if not ok:
                row.fail("the erased arm must exchange the bytes of self and other with ptr::swap_nonoverlapping (got %s of %s and %s)" % (s["prim"], s["a"], s["b"]), s)
            else:
                n = as_poly(s["n"])
                if [x[0] for x in n.atoms()] != ["VSIZE"] or len(n.m) != 1:
                    row.fail("the erased arm must swap exactly size() bytes, swaps %s" % n, s, "count")
                elif list(n.atoms())[0][1] != a[0][1]:
                    row.fail("the byte count is not the size of the swapped value", s, "count")
        else:
            want_t = "<Self as any_value::AnyValueSizeless>::Type" if not self_erased else OT
            ok = s["prim"] == "mem::swap" and s["ety"] == want_t and len(casts) == 2 and all(c["to"] == want_t for c in casts) \
                and len({repr(c["value"]) for c in casts}) == 2
            if not ok:
                row.fail("a typed arm must mem::swap the two values downcast to the statically known type %s (got %s::<%s>, casts to %s)"
                         % (want_t, s["prim"], s["ety"], [c["to"] for c in casts]), s)
        rets = I.all_effects(("RETURN",))
        if not all(before_in(I, s, r) for r in rets):
            row.fail("the swap primitive is executed only on some paths; the other paths exchange the values in a way this analysis cannot classify", s, "conditional")
        extra = [e for e in I.all_effects(("RANGE_NEXT", "WRITE", "COPY", "READ")) if e is not s]
        extra += [e for e in I.all_effects(("STORE",)) if e["path"][0][0] in ("M", "D")]
        extra += [u for u in unk if "unaligned" in str(u["what"]) or "swap" in str(u["what"]).lower() or "copy" in str(u["what"]).lower()]
        if extra:
            row.fail("byte-level manipulation (%s at %s) besides the swap primitive: cannot be shown to exchange exactly the two values" % (extra[0].kind, extra[0].where()),
                     extra[0], "unclassified")
        row.done()


# ---------------------------------------------------------------------------------------------------- mutable and shared byte pointers of a handle agree

def _bytes_ptr_rows(res, ctx, ctors, ctor_by_adt):
    fx = ctx.fx
    pairs = []
    for adt in ("ops::temp::TempValue", "element::ElementPointer", "any_value::wrapper::AnyValueWrapper", "any_value::raw::AnyValueRaw",
                "any_value::raw::AnyValueTypelessRaw", "any_value::raw::AnyValueSizelessRaw"):
        a = b = None
        for im in fx.impls:
            if im["self_ty"].get("path") != adt:
                continue
            for it in im["items"]:
                if im.get("trait") == "any_value::AnyValueSizeless" and it["name"] == "as_bytes_ptr":
                    a = it["path"]
                if im.get("trait") == "any_value::AnyValueSizelessMut" and it["name"] == "as_bytes_mut_ptr":
                    b = it["path"]
        if a and b:
            pairs.append((adt, a, b))
    if len(pairs) < 5:
        res.coverage_lost("any_value", "expected >= 5 value kinds with shared and mutable byte pointers, found %d" % len(pairs))
    for adt, a, b in pairs:
        substs = [None]
        if adt == "ops::temp::TempValue":
            substs = [{ctx.tparam(a, 0): im["self_ty"]} for im in fx.impls_of("ops::temp::Operation")]
        for sb in substs:
            ra = ctx.arms(a, subst=sb) or []
            rb = ctx.arms(b, subst=sb) or []
            for (tta, Ia), (ttb, Ib) in zip(ra, rb):
                label = adt.split("::")[-1] + ((":" + list(sb.values())[0]["path"].split("::")[-1]) if sb else "")
                row = Row(res, ctx, "bytes-ptr-agree:" + label, b, tta, Ia)
                va = [e["value"] for e in Ia.all_effects(("RETURN",))]
                vb = [e["value"] for e in Ib.all_effects(("RETURN",))]

                def norm(v):
                    pp = ptr_parts(v)
                    if pp:
                        return ("ptr", _unver(pp[0]), pp[1])
                    return _strip_root(v)
                if not va or not vb or norm(va[0]) != norm(vb[0]):
                    row.fail("as_bytes_mut_ptr addresses %s while as_bytes_ptr addresses %s: a mutation through the handle goes to a different element"
                             % (vb[0] if vb else None, va[0] if va else None))
                row.done()


def _unver(base):
    if isinstance(base, tuple) and base and base[0] == "BASE":
        return ("BASE", base[1])
    return base


def _strip_root(v):
    return v


# ---------------------------------------------------------------------------------------------------- further rows

def _misc_rows(res, ctx, arms):
    fx = ctx.fx
    # dropping the vector destroys exactly its elements: Drop => LEN := 0, destroy [0, LEN0)
    dp = None
    for im in fx.impls_of("core::ops::Drop"):
        if im["self_ty"].get("path") == "any_vec_raw::AnyVecRaw":
            dp = im["items"][0]["path"]
    if dp is None:
        res.fail("any_vec_raw::AnyVecRaw", "vec-drop/any", "row `vec-drop`: the vector has no Drop impl: its elements are never destroyed (leak)")
        res.inst()
    else:
        for tt, I in arms(dp):
            row = Row(res, ctx, "vec-drop", dp, tt, I)
            L0 = Poly.atom(("init", (("P", 1), ("len",)), 0))
            ds = I.all_effects(("DESTROY",))
            st, fl = _final_len(I)
            if len(ds) != 1:
                row.fail("dropping the vector must destroy its elements with one destructor call, found %d" % len(ds))
            else:
                s = slot_of(ds[0]["ptr"])
                if not s or s[1] is None or s[1] != Poly() or as_poly(ds[0]["n"]) != L0:
                    row.fail("dropping the vector destroys %s elements from slot %s, expected all LEN elements from slot 0" % (ds[0]["n"], s[1] if s else None), ds[0])
                row.all_paths(ds[0], "destroying the elements although the vector has a destructor", zero=L0, no_destructor=True)
            if fl != Poly():
                row.fail("the length is not zeroed before the elements are destroyed", st)
            row.done()
    # creating a range handle reserves nothing: the only growth of a splice is the one in Splice::drop (start + k + tail); a reservation at the public entry
    # (against the full current length) over-reserves and panics on a fixed-capacity backend although the result fits
    for p in ("any_vec::AnyVec::splice", "any_vec_typed::AnyVecTyped::splice", "any_vec::AnyVec::drain", "any_vec_typed::AnyVecTyped::drain"):
        for tt, I in arms(p):
            row = Row(res, ctx, "range-entry:" + p.split("::")[-1], p, tt, I)
            rs = I.all_effects(("RESERVE",))
            if rs:
                row.fail("capacity is requested (%s by %s) when the handle is created: the reservation belongs to the handle's destructor, where the removed "
                         "range is taken into account" % (rs[0]["how"], rs[0]["n"]), rs[0], "reserve")
            row.done()
    # dropping an owning element pointer (a drained / spliced-out item that was not consumed): whenever the vector has a destructor, exactly this element is
    # destroyed, on every path (decided under the entry fact `drop_fn is Some`, so the None arm is pruned) - zero-sized and drop-less-looking sizes included
    dpp = None
    for im in fx.impls_of("core::ops::Drop"):
        if im["self_ty"].get("path") == "element::ElementPointer":
            dpp = im["items"][0]["path"]
    if dpp is None:
        res.coverage_lost("element::ElementPointer", "Drop impl not found")
    for tt0, I0 in (arms(dpp) if dpp else [])[:1]:
        datoms = []
        for e in I0.all_effects(("SWITCH",)):
            d = e["discr"]
            if isinstance(d, Poly):
                for a in d.atoms():
                    if isinstance(a, tuple) and a[0] == "discr" and "drop_fn" in repr(a) and a not in datoms:
                        datoms.append(a)
        if len(datoms) != 1:
            row = Row(res, ctx, "element-drop", dpp, tt0, I0)
            row.fail("dropping an element pointer does not consult the vector's destructor (drop_fn)")
            row.done()
            continue
        for tt, I in ctx.arms(dpp, entry_facts=[("eq0", Poly.atom(datoms[0]) - ONE)]) or []:
            row = Row(res, ctx, "element-drop", dpp, tt, I)
            ds = I.all_effects(("DESTROY",))
            el = ("init", (("P", 1), ("element",)), 0)
            good = [d for d in ds if as_poly(d["n"]) == ONE and el in _flat(d["ptr"])]
            if len(ds) != 1 or not good:
                row.fail("an unconsumed element must be destroyed by one destructor call over exactly this element (found %s)" % [(str(d["ptr"]), str(d["n"])) for d in ds])
            else:
                for r in I.all_effects(("RETURN",)):
                    if not every_path_to(I, r.gid, lambda g: g == good[0].gid):
                        row.fail("a path through the destructor of an element pointer returns without destroying the element although the vector has a destructor "
                                 "(the element is leaked: it is no longer reachable through the vector)", r, "all-paths")
                        break
            row.done()
    # AnyVec::get_unchecked{,_mut}: the element handle points at slot `index` of this vector
    for p in ("any_vec::AnyVec::get_unchecked", "any_vec::AnyVec::get_unchecked_mut"):
        for tt, I in arms(p):
            row = Row(res, ctx, "element-handle", p, tt, I)
            rets = I.all_effects(("RETURN",))
            tr = dict(rets[0]["value"][1]) if rets and isinstance(rets[0]["value"], tuple) and rets[0]["value"][0] == "tree" else {}
            el = [v for k, v in tr.items() if k and k[-1] == "element"]
            vp = [v for k, v in tr.items() if k and k[-1] == "ptr"]
            s = slot_of(el[0]) if el else None
            if not s or s[1] is None or s[1] != Poly.atom(("param", 2)) or s[0] != (("P", 1), ("raw", "mem")):
                row.fail("the element handle points at %s, expected slot `index` of this vector" % (el[0] if el else None,))
            if not vp or vp[0] != ("ref", (("P", 1), ())):
                row.fail("the element handle does not refer back to this vector")
            row.done()
    # clone_into of element handles and removal handles: one call of the vector's clone function over exactly this element
    targets = []
    for im in fx.impls_of("any_value::AnyValueCloneable"):
        sp = im["self_ty"].get("path")
        for it in im["items"]:
            if it["name"] == "clone_into":
                targets.append((sp, it["path"]))
    if len(targets) < 3:
        res.coverage_lost("any_value::AnyValueCloneable", "expected 3 clone_into impls, found %d" % len(targets))
    for sp, p in targets:
        substs = [None]
        if sp == "ops::temp::TempValue":
            substs = [{ctx.tparam(p, 0): im["self_ty"]} for im in fx.impls_of("ops::temp::Operation")]
        for sb in substs:
            for tt, I in (ctx.arms(p, subst=sb) or []):
                label = sp.split("::")[-1] + ((":" + list(sb.values())[0]["path"].split("::")[-1]) if sb else "")
                row = Row(res, ctx, "clone_into:" + label, p, tt, I)
                cl = I.all_effects(("CLONE",))
                ci = I.all_effects(("CLONE_INTO",))
                rets = I.all_effects(("RETURN",))
                if sp == "any_value::lazy_clone::LazyClone":
                    if len(ci) != 1 or cl or not all(before_in(I, ci[0], r) for r in rets):
                        row.fail("a lazy clone of a lazy clone must delegate exactly once to the source's clone_into")
                    elif ptr_parts(ci[0]["out"]) is None or ptr_parts(ci[0]["out"])[0] != ("param", 2) or ptr_parts(ci[0]["out"])[1].m:
                        row.fail("the clone is not produced at the requested destination", ci[0])
                else:
                    if len(cl) != 1 or not all(before_in(I, cl[0], r) for r in rets):
                        row.fail("clone_into must call the vector's clone function exactly once on every path, found %d" % len(cl))
                    else:
                        c = cl[0]
                        d = ptr_parts(c["dst"])
                        if as_poly(c["n"]) != ONE:
                            row.fail("clone_into clones %s elements, expected 1" % c["n"], c, "count")
                        if d is None or d[0] != ("param", 2) or d[1].m:
                            row.fail("the clone is not produced at the requested destination", c, "dst")
                        if "clonetype_get" not in repr(c["fn"]) and "clone_fn" not in repr(c["fn"]):
                            row.fail("the function called is not the vector's clone function (%s)" % (c["fn"],), c, "fn")
                        # source = this handle's own bytes
                        own = None
                        for tt2, I2 in (ctx.arms(_bytes_ptr_of(fx, sp), subst=sb) or []):
                            if tt2 == tt or not tt2:
                                r2 = I2.all_effects(("RETURN",))
                                own = r2[0]["value"] if r2 else None
                        src = c["src"]
                        if isinstance(src, tuple) and src and src[0] == "slice":
                            src = src[1]
                        if own is not None and _norm_ptr(src) != _norm_ptr(own):
                            row.fail("the source passed to the clone function (%s) is not this value's bytes (%s)" % (src, own), c, "src")
                row.done()
    # creating / copying a lazy clone performs no clone and destroys nothing
    for p in ("any_value::lazy_clone::LazyClone::new", "<any_value::lazy_clone::LazyClone as core::clone::Clone>::clone", "any_value::AnyValueCloneable::lazy_clone"):
        for tt, I in arms(p):
            row = Row(res, ctx, "lazy-noop:" + p.split("::")[-1], p, tt, I)
            bad = I.all_effects(("CLONE", "CLONE_INTO", "DESTROY", "COPY", "USER", "MOVE_INTO", "FORGET"))
            if bad:
                row.fail("creating or copying a lazy clone performs %s (%s)" % (bad[0].kind, bad[0].where()), bad[0])
            row.done()


def _bytes_ptr_of(fx, adt):
    for im in fx.impls:
        if im["self_ty"].get("path") == adt and im.get("trait") == "any_value::AnyValueSizeless":
            for it in im["items"]:
                if it["name"] == "as_bytes_ptr":
                    return it["path"]
    return None


def _norm_ptr(v):
    pp = ptr_parts(v)
    if pp:
        return ("ptr", _unver(pp[0]), pp[1])
    return v
