"""shared helpers for rules: slots, strides, effect navigation"""
from ..poly import Poly
from ..interp import implies, as_poly
from ..core import is_len_path

MUTATING = ("STORE", "RESERVE", "COPY", "MOVE_INTO", "CLONE_INTO", "DESTROY", "CLONE", "WRITE", "SWAP", "CONSUME")


def div_atom(p, atom):
    """p / atom if every monomial contains atom, else None"""
    r = {}
    for k, v in p.m.items():
        if atom not in k:
            return None
        kk = list(k)
        kk.remove(atom)
        r[tuple(kk)] = r.get(tuple(kk), 0) + v
    return Poly(r)


def ptr_parts(v):
    """('ptr', base, off, ety) -> (base, off, ety) or None"""
    if isinstance(v, tuple) and v and v[0] == "ptr":
        return v[1], v[2], v[3]
    if isinstance(v, tuple) and v and v[0] == "slice":
        return ptr_parts(v[1])
    return None


def base_mem(base):
    if isinstance(base, tuple) and base and base[0] == "BASE":
        return base[1]
    return None


def stride_atoms(off, mp):
    """candidate stride atoms for a byte offset into storage mp"""
    c = []
    if mp is not None:
        c.append(("STRIDE", mp))
    for a in off.atoms():
        if isinstance(a, tuple) and a and a[0] == "SIZEOF" and a not in c:
            c.append(a)
    return c


def slot_of(v):
    """pointer into vector storage -> (mem path, slot polynomial, stride atom) or None.
    Offset 0 is slot 0 with unknown stride (None)."""
    pp = ptr_parts(v)
    if pp is None:
        return None
    base, off, ety = pp
    mp = base_mem(base)
    if mp is None:
        return None
    if not off.m:
        return mp, Poly(), None
    for s in stride_atoms(off, mp):
        q = div_atom(off, s)
        if q is not None:
            return mp, q, s
    return mp, None, None


def in_elems(n, stride, ety):
    """count n (given for element type ety) expressed in elements"""
    if ety in ("u8", "core::mem::MaybeUninit<u8>"):
        if stride is None:
            return None
        return div_atom(n, stride)
    return n


def vec_path_of_mem(mp):
    root, proj = mp
    if proj and proj[-1] == "mem":
        return (root, proj[:-1])
    return None


def len_path_of_mem(mp):
    v = vec_path_of_mem(mp)
    if v is None:
        return None
    return (v[0], v[1] + ("len",))


def inst_within(inst, anc):
    while inst is not None:
        if inst is anc:
            return True
        inst = inst.parent
    return False


def effects_in(I, inst, kinds=None):
    return [e for e in I.all_effects(kinds) if inst_within(e.node.inst, inst)]


def len_stores(I, inst=None):
    out = []
    for e in I.all_effects(("STORE",)):
        if is_len_path(e["path"]) and e["ty"] == "usize":
            if inst is None or inst_within(e.node.inst, inst):
                out.append(e)
    return out


def entry_len(I, inst, len_path):
    st = I.in_state.get(inst.bmap[0])
    if st is None:
        return None
    return I.load(st, len_path, {"k": "uint"})


def span_of_effect(e):
    f = e.node.inst.fn
    return "%s:%s" % (f["span"]["file"], e.get("line"))


def proves(facts, op, a, b):
    from ..interp import cmp_fact
    return implies(facts, cmp_fact(op, a, b))


def fmt_facts(facts, limit=6):
    out = []
    for f in list(facts)[:limit]:
        if f[0] in ("ge0", "eq0", "ne0"):
            out.append("%s %s 0" % (f[1], {"ge0": ">=", "eq0": "==", "ne0": "!="}[f[0]]))
    return "; ".join(out)


def site_in(e, top):
    """position (gid, idx) of effect e as seen from instance `top`: effects inside callees are attributed to the call site"""
    inst = e.node.inst
    gid, idx = e.gid, e.idx
    while inst is not top and inst.parent is not None:
        gid, idx = inst.call_gid, 1 << 20
        inst = inst.parent
    return gid, idx


def before_in(I, a, b, top=None):
    """effect a is executed before b on EVERY path reaching b: true dominance in the inlined graph (arm-restricted)"""
    if a.gid == b.gid:
        return a.idx <= b.idx
    return I.g.dominates(I.dominators(), a.gid, b.gid)


def before_in_collapsed(I, a, b, top=None):
    """like before_in, but effects inside callees are attributed to their call sites (a helper with several internal branches
    counts as one step of the caller)"""
    top = top or I.g.entry
    (ga, ia), (gb, ib) = site_in(a, top), site_in(b, top)
    if ga == gb:
        return ia <= ib
    return I.g.dominates(I.dominators(), ga, gb)


def every_path_to(I, gid, ok_at, depth=400, ok_edge=None):
    """every taken normal path from the entry to node gid passes through a node satisfying ok_at(gid) (checked backwards over joins);
    ok_edge(pred, node): the path arriving over that edge is excused (the facts that hold on the edge make the obligation void)"""
    entry = I.g.entry.bmap[0]
    seen = {}

    def rec(g, d):
        if g in seen:
            return seen[g]
        seen[g] = True      # cycles: assume ok (loops do not bypass)
        if ok_at(g):
            seen[g] = True
            return True
        if g == entry or d == 0:
            seen[g] = False
            return False
        preds = [p for (p, k) in I.g.nodes[g].preds if k == "normal" and (p, g) in I.edges]
        if not preds:
            seen[g] = False
            return False
        r = all((ok_edge is not None and ok_edge(p, g)) or rec(p, d - 1) for p in preds)
        seen[g] = r
        return r
    return rec(gid, depth)


def edge_facts(I, p, g):
    st = I.out_states.get((p, g))
    return st.facts if st is not None else frozenset()
