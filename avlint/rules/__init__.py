"""Rule registry and property -> rules mapping (DESIGN.md sections 3 and 4)."""
from . import bounds

RULES = {
    "R-BOUNDS": {"fn": bounds.r_bounds, "floor": 14,
                 "template": "every unchecked index sink (handle constructor, unsafe accessor, in-range shift) is dominated by a must-fact "
                             "establishing its precondition on the same value numbers; the failing side diverges/returns before any effect"},
    "R-LENLOWER": {"fn": bounds.r_lenlower, "floor": 10,
                   "template": "each handle constructor lowers LEN exactly once, on every path, to its index/start parameter (Pop: LEN-1), and has no other effect"},
}

PROPERTIES = {
    "C01": {"rules": ["R-BOUNDS"],
            "explanation": "static rule conformance on the type-checked MIR of /repo",
            "not_decided": "value-level equality of elements"},
    "C07": {"rules": ["R-LENLOWER"], "explanation": "x", "not_decided": ""},
}
