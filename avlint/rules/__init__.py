"""Rule registry and property -> rules mapping (DESIGN.md sections 3 and 4)."""
from . import bounds, formula, safety, arith, structure, repinv

RULES = {}


def rule(name, fn, floor, template, **kw):
    RULES[name] = dict(fn=fn, floor=floor, template=template, **kw)


FORMULA_ROWS = {
    # row-name prefix -> properties that own it
    "push": ["C01", "C11"], "insert": ["C01", "C11"], "clear": ["C01", "C03"], "ctor-fields:Pop": ["C01", "C07"], "ctor-fields:Remove": ["C01", "C07"],
    "ctor-fields:SwapRemove": ["C01", "C07"], "ctor-fields:Drain": ["C02", "C07"], "ctor-fields:Splice": ["C02", "C07"],
    "Pop::": ["C01", "C13", "C05"], "Remove::": ["C01", "C13", "C05"], "SwapRemove::": ["C01", "C13", "C05"],
    "Drain::drop": ["C02", "C03", "C06"], "Splice::drop": ["C02", "C03", "C11", "C05", "C06"], "range-entry": ["C02", "C11", "C19"],
    "slot-pointer": ["C01", "C13", "C05"], "view:": ["C12", "C05"], "set_len": ["C12"], "iter-range": ["C01", "C14"],
    "reserve": ["C10"], "reserve_exact": ["C10"], "shrink_to_fit": ["C10", "C05"], "shrink_to": ["C10", "C05"],
    "clone": ["C08", "C05"], "TempValue::": ["C01", "C03", "C06"], "swap_unchecked": ["C13"], "vec-drop": ["C03", "C05"], "element-handle": ["C13", "C01"], "element-drop": ["C03", "C02"], "clone_into": ["C09", "C08", "C01"], "lazy-noop": ["C09"], "bytes-ptr-agree": ["C13"], "into_range": ["C02", "C14"], "heap-expand": ["C10", "C05"], "expand_exact": ["C10"], "build_with_size": ["C10"],
}


def formula_filter(prop, f):
    if f.kind == "coverage-lost":
        return True
    role = f.role or ""
    for pre, props in sorted(FORMULA_ROWS.items(), key=lambda kv: -len(kv[0])):
        if role.startswith(pre):
            return prop in props
    return True


rule("R-BOUNDS", bounds.r_bounds, 25,
     "every unchecked index sink (handle constructor, unsafe accessor, in-range shift) reached from a safe public entry is dominated by a "
     "must-fact establishing its precondition on the same value numbers (index<LEN, LEN>0, index<=LEN, start<=end<=LEN); no effect precedes the guard")
rule("R-LENLOWER", bounds.r_lenlower, 10,
     "each handle constructor lowers LEN exactly once, on every path, to its index/start parameter (Pop: LEN-1), and has no other effect")
rule("R-FORMULA", formula.r_formula, 45,
     "per operation and dispatch arm, the effect summary (guards, ordered effects with their polynomial terms, final LEN) equals the Vec model row",
     props_filter=formula_filter)

rule("R-TYPEGUARD", safety.r_typeguard, 8,
     "every write of a user value into vector storage and every unchecked reinterpretation reached from safe code is dominated by the "
     "must-fact value_typeid()==element type id / TypeId::of::<T>() with the same T, before any effect on the vector")
rule("R-ORDER", safety.r_order, 20,
     "effect-ordering typestate: P1 no storage pointer used across a RESERVE; P2 no user code while shifted slots are inside LEN; "
     "P3 destroyed slots already hidden by LEN; P4 destroy<consume, copy<consume<forget, final LEN after user code; P5 clone target empty during clone")
rule("R-FORGET", safety.r_forget, 14,
     "every resolved move_into either copies the bytes and forgets self on every normal path (owning values) or clones exactly once without copying (lazy values); "
     "non-owning wrappers have no drop glue, owning handles have Drop")
rule("R-EXPANDGUARD", safety.r_expandguard, 2,
     "every call of the abstract Mem::expand is dominated by a check that capacity is insufficient (CAP < needed or LEN == CAP)")
rule("R-NONINTERFERENCE", safety.r_noninterference, 8,
     "tail source/count/destination, reservation and final LEN of a range handle's Drop do not depend on cursor fields written by next/next_back")
rule("R-BOUNDLOOP", safety.r_boundloop, 2,
     "a loop that drives writes into storage from a user iterator has an exit on a counter compared with the reserved count, and the final LEN uses the written count")

rule("R-ARITH", arith.r_arith, 15,
     "Add/Mul/Sub whose operand derives from unbounded caller input (additional/capacity arguments, range bounds, const-generic N, reported iterator length) "
     "is an explicit checked_*/saturating_* operation or is dominated by a bounding fact; compiler-inserted overflow assertions do not count (absent in release)")
rule("R-OVERLAP", arith.r_overlap, 20,
     "copy_nonoverlapping/swap_nonoverlapping only between provably distinct ranges; crate-local byte loops run in the direction that is safe for dst-src "
     "or are dominated by a pointer-order test")
rule("R-UNITS", arith.r_units, 45,
     "every pointer offset, copy/slice length, element count, capacity amount and layout size has the unit its sink requires (BYTES = elements x stride vs ELEMENTS); "
     "byte strides come from the type accessed through the pointer")

rule("R-FIELDMAP", structure.r_fieldmap, 20,
     "field-wise copies are the identity mapping: RawParts::clone, into_raw_parts o from_raw_parts, Mem raw-parts impls; no drop of self/raw/mem in into_raw_parts")
rule("R-PROVENANCE", structure.r_provenance, 35,
     "type-describing state (type_id, drop_fn, clone_fn, layout) is written only by constructors, from one consistent T / copied from the same-named source field; "
     "reporters return that state")
rule("R-ALLOCCONFINED", structure.r_allocconfined, 3, floor_no_alloc=0,
     template="resolved paths into crate alloc occur only inside module mem::heap (positive control: the allocator calls of HeapMem::resize)")
rule("R-HEAP", structure.r_heap, 12, floor_no_alloc=0,
     template="allocator protocol of HeapMem::resize: alloc/realloc/dealloc only under their size/stride guards, with the layout of the allocation they refer to, "
              "checked size multiplication and checked Layout, null check, size update, Drop => resize(0)")
rule("R-ALIGN", structure.r_align, 7,
     "every Mem::as_ptr/as_mut_ptr returns an allocation with the element alignment, dangling(layout) (address = align) or an inline field whose type guarantees the "
     "largest element alignment build() admits")
rule("R-ITER", structure.r_iter, 12,
     "cursor discipline: next/next_back guarded by index != end, yield slot index / end-1, step by one, nothing stored on None; size_hint/len = end-index; "
     "Clone copies cursors; the ops wrapper forwards to the same-named method")
rule("R-SIG", structure.r_sig, 35,
     "borrow-shaped signatures: exclusive handles only from &mut self; returned lifetimes are the receiver's borrow, not an impl-level lifetime; exclusive handles/iterators are not Clone")

rule("R-HANDLELIFE", structure.r_handlelife, 4,
     "no public operation returns an iterator whose destructor relocates slots while its items destroy their element in place through a stored slot address "
     "(an Iterator's items cannot borrow from the iterator, so such an item can outlive it)")
rule("R-REPINV", repinv.r_repinv, 20,
     "slot accounting over every loop-free path of every public operation of the vector types: the set of initialised slots (symbolic intervals, start [0,LEN)) "
     "after each destroy / copy / write / clone / read and each length store never provably exposes an empty slot at user code or at the return, destroys or "
     "moves an empty slot, overwrites a full one, or leaves a full slot outside the visible length at the return")
rule("R-TRAITSET", structure.r_traitset, 0,
     "no safe public function returns a vector / view / handle whose concrete constraint set has a marker (Send, Sync, Cloneable) that none of its vector "
     "arguments' constraint sets has")
rule("R-NOLEAK", structure.r_noleak, 2,
     "drop suppression (ManuallyDrop::new, mem::forget, MaybeUninit::new, ManuallyDrop/MaybeUninit fields) of a value that owns storage occurs only in the "
     "raw-parts decomposition, where the storage is handed to the caller")
rule("R-STACKCAP", structure.r_stackcap, 4,
     "Stack<SIZE>::build computes SIZE / element size guarded by size != 0 (usize::MAX for zero-sized); StackNMem::size() = N; StackN::build establishes N x size <= SIZE")
rule("R-CONFIG", structure.r_config, 250, multi=True,
     template="feature configurations: the no-alloc build links only core, is #![no_std], its API surface = default - mem::heap, and every body present in both "
              "configurations is structurally identical (so all other verdicts carry over)")

_EXPL = ("static rule conformance on the type-checked program (MIR exported by a rustc driver from /repo's working tree): "
         "decides the structural clauses named in DESIGN.md section 4 for this property, not the behavioural statement as a whole")


def _fn_filter(mapping, default=None):
    """findings are attributed to properties by (substring of) function / role"""
    def flt(prop, f):
        if f.kind == "coverage-lost" and (f.func or "").startswith("<"):
            return True
        key = f.key
        for pat, props in mapping:
            if pat in key:
                return prop in props
        return True if default is None else prop in default
    return flt


RULES["R-ORDER"]["props_filter"] = _fn_filter([("P1-", ["C05"]), ("splice::Splice", ["C06", "C03", "C04"]), ("P2-", ["C06", "C03"]), ("P3-", ["C03", "C06"]), ("P4-", ["C03", "C06"]), ("P5-", ["C08", "C06"])])
RULES["R-ARITH"]["props_filter"] = _fn_filter([("into_range", ["C02"]), ("splice", ["C02", "C11"]), ("stack_n", ["C11"]), ("HeapMem", ["C10", "C18"]),
                                                ("mem::MemResizable", ["C10", "C18"]), ("reserve", ["C10"])], default=["C10", "C18"])
RULES["R-BOUNDS"]["props_filter"] = _fn_filter([("ctor:Drain", ["C02", "C05"]), ("ctor:Splice", ["C02", "C05"]), ("unchecked-access", ["C13", "C01", "C05"]), ("element-handle", ["C13", "C01", "C05"]),
                                                 ("into_range", ["C02"])], default=["C01", "C05"])
RULES["R-UNITS"]["props_filter"] = _fn_filter([("spare_bytes_mut", ["C12", "C05"]), ("as_bytes", ["C12", "C05"]), ("AnyVecTyped", ["C12", "C05"]), ("splice", ["C02", "C11", "C05"]),
                                                ("drain", ["C02", "C05"]), ("heap", ["C18"]), ("stride-type", ["C03", "C05"])], default=["C01", "C05"])
RULES["R-EXPANDGUARD"]["props_filter"] = _fn_filter([("clone", ["C08", "C11", "C19"])], default=["C11", "C19"])
RULES["R-TYPEGUARD"]["props_filter"] = _fn_filter([("swap", ["C04", "C13"])], default=["C04"])
RULES["R-LENLOWER"]["props_filter"] = _fn_filter([("extra-effect", ["C02", "C07", "C06", "C11", "C19"]), ("drain", ["C02", "C07", "C06"]), ("splice", ["C02", "C07", "C06"])], default=["C07", "C06", "C01", "C03"])
RULES["R-HEAP"]["props_filter"] = _fn_filter([("size-update", ["C18", "C10"]), ("layout", ["C18", "C12"]), ("build-allocates", ["C18", "C10"])], default=["C18"])
RULES["R-FORGET"]["props_filter"] = _fn_filter([("owned-value-no-drop", ["C03", "C04"]), ("bypasses-move_into", ["C01", "C03", "C09"]), ("LazyClone", ["C09", "C03"]), ("lazy", ["C09", "C03"])], default=["C03", "C09"])
# copies inside one storage: the drain/splice tail moves (move_elements_at, Drain/Splice drop) belong to C02 as well, everything to C01 and C05
RULES["R-OVERLAP"]["props_filter"] = _fn_filter([("move_elements_at", ["C01", "C02", "C05"]), ("drain", ["C01", "C02", "C05"]), ("splice", ["C01", "C02", "C05"])], default=["C01", "C05"])
# a cursor method outside the judged next/next_back/size_hint/len set can skip owning items (drained elements are then never destroyed): also C03
# ... and so does a wrapper of an owning iterator that forwards a skipping method (nth / nth_back) instead of running next() for every skipped item
RULES["R-ITER"]["props_filter"] = _fn_filter([("unclassified-cursor-method", ["C02", "C13", "C14", "C03"]), (":forward", ["C02", "C13", "C14", "C03"])], default=["C02", "C13", "C14"])
RULES["R-STACKCAP"]["props_filter"] = _fn_filter([("zero-size-capacity", ["C11"])], default=["C11", "C05"])
RULES["R-PROVENANCE"]["props_filter"] = _fn_filter([("unwind-destroys-in-flight", ["C06", "C03"]), ("reporter", ["C04", "C13"]), ("clone_type::clone_fn:destroys-on-unwind", ["C06", "C03", "C08"]), ("clone_type::clone_fn", ["C08", "C03", "C09", "C01"]), ("clone", ["C08", "C03"]), ("CLONE_FN", ["C08"]), ("destr", ["C03"])], default=["C04", "C08", "C03"])

RULES["R-REPINV"]["props_filter"] = _fn_filter([("leak/", ["C03"]), ("double/", ["C03", "C01", "C06"]), ("overwrite/", ["C03", "C01"]), ("exposed/", ["C06", "C05", "C01", "C03"])])

PROPERTIES = {
    "C01": {"rules": ["R-BOUNDS", "R-FORMULA", "R-UNITS", "R-OVERLAP", "R-PROVENANCE", "R-FORGET", "R-REPINV"],
            "not_decided": "value-level equality of elements (the analysis tracks slots and byte ranges, not contents); user backends violating the Mem contract"},
    "C02": {"rules": ["R-BOUNDS", "R-LENLOWER", "R-ITER", "R-FORMULA", "R-NONINTERFERENCE", "R-UNITS", "R-ARITH", "R-BOUNDLOOP", "R-OVERLAP"],
            "not_decided": "equality of yielded values"},
    "C03": {"rules": ["R-FORGET", "R-PROVENANCE", "R-ORDER", "R-NONINTERFERENCE", "R-FORMULA", "R-LENLOWER", "R-NOLEAK", "R-ITER", "R-HANDLELIFE", "R-REPINV"],
            "not_decided": "a global count of live values over histories (ownership discipline is decided, not identity accounting)"},
    "C04": {"rules": ["R-TYPEGUARD", "R-PROVENANCE", "R-ORDER", "R-FORGET"], "not_decided": "which downcast succeeds at run time; decided: every unchecked reinterpretation sits behind the right equality test"},
    "C05": {"rules": ["R-ORDER", "R-BOUNDS", "R-UNITS", "R-FORMULA", "R-BOUNDLOOP", "R-NONINTERFERENCE", "R-STACKCAP", "R-OVERLAP", "R-REPINV"],
            "not_decided": "'no byte is read before it was written' in general, guard zones / poison (run-time notions)"},
    "C06": {"rules": ["R-ORDER", "R-BOUNDLOOP", "R-LENLOWER", "R-PROVENANCE", "R-FORMULA", "R-REPINV"], "not_decided": "that later operations stay fully usable beyond LEN<=CAP and visible-range integrity"},
    "C07": {"rules": ["R-LENLOWER", "R-FORMULA"], "not_decided": ""},
    "C08": {"rules": ["R-FORMULA", "R-ORDER", "R-EXPANDGUARD", "R-PROVENANCE"],
            # `Clone` must exist for every Cloneable constraint set on EVERY backend (a bound such as `M::Mem: MemResizable` on the impl removes it from the
            # fixed-capacity ones): the Clone-availability cells of the P15 matrix
            "probes": ["P15"], "probe_filter": (lambda key: ":Clone:" in key),
            "not_decided": "each source element cloned exactly once beyond the clone function's loop shape; independence beyond separate storage"},
    "C09": {"rules": ["R-FORGET", "R-FORMULA", "R-PROVENANCE"], "not_decided": ""},
    "C10": {"rules": ["R-ARITH", "R-FORMULA", "R-HEAP"], "not_decided": "the count of reallocations over 2^16 pushes (only its structural cause, the doubling term, is checked)"},
    "C11": {"rules": ["R-EXPANDGUARD", "R-FORMULA", "R-ARITH", "R-ALLOCCONFINED", "R-STACKCAP", "R-LENLOWER"],
            "not_decided": "behavioural equality with the heap backend beyond 'same generic code, backend reached only through Mem'"},
    "C12": {"rules": ["R-FORMULA", "R-UNITS", "R-ALIGN", "R-HEAP"], "not_decided": ""},
    "C13": {"rules": ["R-BOUNDS", "R-FORMULA", "R-TYPEGUARD", "R-PROVENANCE", "R-ITER"], "not_decided": "value equality after mutation"},
    "C14": {"rules": ["R-ITER", "R-FORMULA"], "not_decided": "typed iterators are core::slice iterators over the R-FORMULA slice (std adapters trusted)"},
    "C15": {"rules": ["R-TRAITSET"], "probes": ["P15"], "exhaustive": True, "not_decided": ""},
    "C16": {"rules": ["R-SIG"], "probes": ["P16"], "exhaustive": True, "not_decided": ""},
    "C17": {"rules": ["R-FIELDMAP"], "not_decided": "'indistinguishable under all further operations' follows only as 'every field is restored'"},
    "C18": {"rules": ["R-HEAP", "R-ARITH", "R-ALLOCCONFINED", "R-UNITS", "R-NOLEAK"], "not_decided": "the allocator's own behaviour"},
    "C19": {"rules": ["R-CONFIG", "R-ALLOCCONFINED", "R-EXPANDGUARD", "R-LENLOWER", "R-FORMULA"], "probes": ["P19"], "configs_quick": ["default", "no-alloc"], "not_decided": ""},
}
for _p in PROPERTIES.values():
    _p.setdefault("explanation", _EXPL)
