"""R-REPINV: operation-independent slot accounting (the representation invariant of a vector) over the paths of every operation on a vector.

The Vec model rows of R-FORMULA say, per operation, what the effect summary must be.  This rule needs no row: it walks every loop-free path of a public
operation of the vector types, keeps for each vector the set of INITIALISED slots as symbolic intervals (start: [0, LEN)), applies each effect to it
(destroy removes, copy moves, write / clone adds, read moves out, a length store changes what is visible) and reports what is PROVABLY wrong under the
facts of that path:

  exposed     at user code (destructor, clone, move_into, iterator) or at the return a visible slot [0, LEN) holds no value
  double      a slot that holds no value is destroyed / moved out again
  overwrite   a slot that holds a value is overwritten without being destroyed or moved first
  leak        at the normal return a slot that holds a value lies outside [0, LEN)

What it cannot decide it leaves alone and lists in the evidence (loops around effects, pointers that are not `base + slot x stride`, comparisons the
facts do not settle): an operation is reported only for a path on which the violation follows from the path's own facts."""
from ..core import RuleResult, arm_name, is_len_path
from ..poly import Poly
from ..interp import implies, cmp_fact, as_poly
from .util import *

VECTOR_TYPES = ("any_vec::AnyVec", "any_vec_raw::AnyVecRaw", "any_vec_typed::AnyVecTyped", "any_vec::AnyVecMut", "any_vec::AnyVecRef")
TRACKED = ("P", "A", "V", "D")      # vectors that exist before the operation: parameters, and what a parameter's pointer / reference designates
RELEVANT = ("STORE", "DESTROY", "COPY", "SWAP", "WRITE", "READ", "MOVE_INTO", "CLONE_INTO", "CLONE", "USER", "UNKNOWN")
MAX_STEPS = 6000
MAX_SECONDS = 4.0        # per operation and arm: beyond that the operation is listed as not decided


def _inconsistent(facts):
    from ..interp import contradicts
    fs = frozenset(facts)
    return any(contradicts(fs - {f}, f) for f in fs if f and f[0] in ("eq0", "ne0", "ge0", "teq", "tne", "true", "isfalse"))


def _plain(p, depth=0):
    """the polynomial is made of the operation's own inputs only: arguments, fields of the objects as they were on entry, and min / max of such"""
    for a in p.atoms():
        if not (isinstance(a, tuple) and a):
            return False
        if a[0] in ("init", "param"):
            continue
        if a[0] in ("min", "max") and depth < 3 and len(a) == 3 and isinstance(a[1], Poly) and isinstance(a[2], Poly) and _plain(a[1], depth + 1) and _plain(a[2], depth + 1):
            continue
        return False
    return True


class Undecided(Exception):
    pass


class Acct:
    """initialised slots of one vector as disjoint half-open intervals with polynomial bounds"""

    def __init__(self, ivs, length):
        self.ivs = list(ivs)
        self.len = length

    def copy(self):
        return Acct(self.ivs, self.len)


def _le(F, a, b):
    return a == b or implies(F, cmp_fact("Le", a, b))


def _lt(F, a, b):
    return implies(F, cmp_fact("Lt", a, b))


def _merge(ivs):
    ivs = [(a, b) for (a, b) in ivs if a != b]
    changed = True
    while changed:
        changed = False
        for i, (a, b) in enumerate(ivs):
            for j, (c, d) in enumerate(ivs):
                if i != j and b == c:
                    ivs = [x for k, x in enumerate(ivs) if k not in (i, j)] + [(a, d)]
                    changed = True
                    break
            if changed:
                break
    return ivs


def _contains(F, ivs, lo, hi):
    if lo == hi:
        return True
    return any(_le(F, a, lo) and _le(F, hi, b) for (a, b) in ivs)


def _disjoint_all(F, ivs, lo, hi):
    return all(_le(F, hi, a) or _le(F, b, lo) for (a, b) in ivs)


def _remove(F, ivs, lo, hi):
    if lo == hi:
        return ivs
    for k, (a, b) in enumerate(ivs):
        if _le(F, a, lo) and _le(F, hi, b):
            return _merge(ivs[:k] + ivs[k + 1:] + [(a, lo), (hi, b)])
    raise Undecided("range [%s, %s) is not inside one initialised interval" % (lo, hi))


def _rng(ptr, n, ety, what):
    """(mem path, lo, hi) of n elements at a pointer into vector storage; None when the pointer is not into vector storage"""
    s = slot_of(ptr)
    if s is None:
        return None
    mp, slot, stride = s
    if len_path_of_mem(mp) is None:
        return None
    if slot is None:
        raise Undecided("%s through a pointer that is not base + slot x stride" % what)
    cnt = in_elems(as_poly(n), stride, ety) if n is not None else Poly.const(1)
    if cnt is None:
        # a byte count that is a multiple of the stride of a zero offset (slot 0 has no stride atom): try the vector's own stride
        st = Poly.atom(("STRIDE", mp))
        cnt = div_atom(as_poly(n), ("STRIDE", mp))
        if cnt is None:
            raise Undecided("%s of a byte count that is not a multiple of the element size" % what)
    return mp, slot, slot + cnt


def r_repinv(ctx):
    res = RuleResult("R-REPINV")
    fx = ctx.fx
    seen_keys = set()
    for f in fx.fn_list:
        if f.get("kind") != "AssocFn" or fx.fn(f["path"]) is not f or f.get("unsafe"):
            continue
        st = f.get("impl_self_ty", {})
        while st.get("k") == "ref":
            st = st["to"]
        if st.get("path") not in VECTOR_TYPES or f.get("self_kind") not in ("ref", "mut", "value"):
            continue
        if not (ctx.is_public(f) or f.get("impl_trait")):
            continue
        fpath = f["path"]
        for tt, I in ctx.arms(fpath) or []:
            an = arm_name(tt)
            rel_nodes = set()
            for e in I.all_effects(RELEVANT):
                if e.kind == "STORE" and not is_len_path(e["path"]):
                    continue
                rel_nodes.add(e.gid)
            if not any(e.kind in ("DESTROY", "COPY", "SWAP", "WRITE", "READ", "MOVE_INTO", "CLONE_INTO", "CLONE") or (e.kind == "STORE" and is_len_path(e["path"]))
                       for e in I.all_effects(RELEVANT)):
                continue
            res.inst(sample={"operation": fpath, "arm": an}, func=fpath)
            verdict = _walk(ctx, I, fpath, rel_nodes)
            if verdict[0] == "ok":
                res.ok()
            elif verdict[0] == "undecided":
                res.ok()
                note = "%s [%s]: not decided - %s" % (fpath, an, verdict[1])
                if note not in res.notes and len(res.notes) < 60:
                    res.notes.append(note)
            else:
                _k, sub, msg, eff = verdict
                raw = getattr(eff, "e", eff)
                res.fail(fpath, "%s/%s" % (sub, an), "%s: %s" % (fpath, msg), span=span_of_effect(raw) if raw is not None else ctx.span_of(fpath))
    _range_handles(ctx, res)
    return res


def _range_handles(ctx, res):
    """methods of the range handles (drain / splice) and of their wrapper: the vector they work on starts in the state their constructor left - length lowered
    to `start`, values in [0, start), in the not yet yielded part [index, end) and in the tail [end, original_len); a method that consumes the handle (by-value
    `self`, Drop) must leave exactly [0, LEN) initialised"""
    from .safety import entry_points, range_handles
    from .bounds import handle_roles, is_cursor_key
    fx = ctx.fx
    roles_all = handle_roles(ctx)
    hs = set(range_handles(ctx))
    for fpath, subst, ef, label in entry_points(ctx):
        f = ctx.fn(fpath)
        if f is None or f.get("kind") != "AssocFn" or f.get("name") in ("next", "next_back", "size_hint", "len", "iter", "iter_mut", "new", "fmt"):
            continue
        st = f.get("impl_self_ty", {})
        if st.get("path") in hs:
            adt, prefix = st["path"], ()
        elif st.get("path") == "ops::iter::Iter" and label.startswith("I="):
            conc = [a for a in st.get("args", []) if a.get("k") == "adt"]
            adt = list(subst.values())[0].get("path") if subst else (conc[0].get("path") if conc else None)
            prefix = ("0",)
            if adt not in hs:
                continue
            if conc and conc[0].get("path") != adt:
                continue          # an impl for one particular range handle (`impl Iter<Drain<..>>`)
        else:
            continue
        if f.get("self_kind") not in ("ref", "mut", "value"):
            continue
        roles = roles_all.get(adt, {})
        root = ("A", 1) if f.get("self_kind") == "value" else ("P", 1)
        if root != ("P", 1) and ef:
            # the handle invariants are stated for `self` behind a reference; a by-value `self` is the argument object itself
            def re_root(a):
                if isinstance(a, tuple) and len(a) == 3 and a[0] == "init" and isinstance(a[1], tuple) and a[1][0] == ("P", 1):
                    return Poly.atom(("init", (root, a[1][1]), a[2]))
                if isinstance(a, tuple) and len(a) == 3 and a[0] == "init" and isinstance(a[1], tuple) and isinstance(a[1][0], tuple) and a[1][0][:1] == ("V",):
                    inner = a[1][0][1]
                    if isinstance(inner, tuple) and len(inner) == 3 and inner[0] == "init" and inner[1][0] == ("P", 1):
                        return Poly.atom(("init", (("V", ("init", (root, inner[1][1]), inner[2])), a[1][1]), a[2]))
                return None
            ef = frozenset((ff[0], ff[1].subst(re_root)) if len(ff) == 2 and isinstance(ff[1], Poly) else ff for ff in ef)

        def F(k):
            return Poly.atom(("init", (root, tuple(prefix) + tuple(k)), 0))
        try:
            start = F([k for k in roles["index"] if not is_cursor_key(ctx, adt, k)][0])
            idx = F([k for k in roles["index"] if is_cursor_key(ctx, adt, k)][0])
            cend = F([k for k in roles["end"] if is_cursor_key(ctx, adt, k)][0])
            endf = F([k for k in roles["end"] if not is_cursor_key(ctx, adt, k)][0])
            ol = F(roles["original_len"][0])
            vp = roles["vecptr"][0]
        except (KeyError, IndexError):
            continue
        mp = (("V", ("init", (root, tuple(prefix) + tuple(vp)), 0)), ("mem",))
        for tt, I in ctx.arms(fpath, subst=subst, entry_facts=ef) or []:
            an = arm_name(tt) + ("," + label if label else "")
            ik = [k for k in roles["index"] if is_cursor_key(ctx, adt, k)][0]
            ek = [k for k in roles["end"] if is_cursor_key(ctx, adt, k)][0]
            cpaths = ((root, tuple(prefix) + tuple(ik)), (root, tuple(prefix) + tuple(ek)))
            rel_nodes = {e.gid for e in I.all_effects(RELEVANT) if not (e.kind == "STORE" and not is_len_path(e["path"]) and e["path"] not in cpaths)}
            if not any(e.kind in ("DESTROY", "COPY", "SWAP", "WRITE", "READ", "MOVE_INTO", "CLONE_INTO", "CLONE")
                       or (e.kind == "STORE" and (is_len_path(e["path"]) or e["path"] in cpaths)) for e in I.all_effects(RELEVANT)):
                continue
            res.inst(sample={"handle_method": fpath, "arm": an, "initial_slots": "[0,start) + [index,end) + [end,original_len), length start"}, func=fpath)
            consumes = f.get("self_kind") == "value" or (f.get("impl_trait") == "core::ops::Drop")
            cur = None
            if f.get("impl_trait") != "core::ops::Drop":
                cur = {"idx_path": (root, tuple(prefix) + tuple(ik)), "end_path": (root, tuple(prefix) + tuple(ek)), "init": {"idx": idx, "end": cend}}
            verdict = _walk(ctx, I, fpath, rel_nodes, accts0={mp: Acct([(Poly(), start), (idx, cend), (endf, ol)], start)}, unfinished=not consumes, cursor=cur)
            if verdict[0] == "ok":
                res.ok()
            elif verdict[0] == "undecided":
                res.ok()
                note = "%s [%s]: not decided - %s" % (fpath, an, verdict[1])
                if note not in res.notes and len(res.notes) < 60:
                    res.notes.append(note)
            else:
                _k, sub, msg, eff = verdict
                raw = getattr(eff, "e", eff)
                res.fail(fpath, "%s/%s" % (sub, an), "%s: %s" % (fpath, msg), span=span_of_effect(raw) if raw is not None else ctx.span_of(fpath))


def _walk(ctx, I, fpath, rel_nodes, accts0=None, unfinished=False, cursor=None):
    entry = I.g.entry.bmap[0]
    f0 = ctx.fn(fpath) or {}
    out0 = f0.get("sig", {}).get("output", {})
    while out0.get("k") == "adt" and out0.get("path") == "core::option::Option":
        out0 = next((a for a in out0.get("args", []) if a.get("k") != "region"), {})
    returns_handle = unfinished or (bool(f0.get("sig", {}).get("output_bound_regions") or f0.get("sig", {}).get("output_free_regions")) and
                                    out0.get("k") == "adt" and out0.get("path", "").startswith("ops::"))
    steps = [0]
    may_mode = accts0 is not None
    accts0 = accts0 if accts0 is not None else {}

    def acct(accts, mp, F):
        a = accts.get(mp)
        if a is None:
            lp = len_path_of_mem(mp)
            if mp[0][0] in TRACKED:
                L0 = Poly.atom(("init", lp, 0))
                a = Acct([(Poly(), L0)], L0)
            else:
                a = Acct([], Poly())
            accts[mp] = a
        return a

    def user_point(accts, F, e, what):
        for mp, a in accts.items():
            if mp in ("$cursor", "$yields") or mp[0][0] not in TRACKED:
                continue
            L = a.len
            ivs = _merge(a.ivs)
            if not ivs:
                if _lt(F, Poly(), L):
                    return ("violation", "exposed", "%s runs while the vector's length is %s although no slot holds a value" % (what, L), e)
                continue
            first = [iv for iv in ivs if iv[0] == Poly()]
            if len(ivs) == 1 and first and _lt(F, first[0][1], L):
                return ("violation", "exposed", "%s runs while the slots [%s, %s) are inside the visible length but hold no value (destroyed or moved out): "
                        "a panic there, or the code itself, reaches them" % (what, first[0][1], L), e)
            if len(ivs) == 1 and first:
                # the length runs ahead of the values by d = LEN - h, d >= 0 known, d == 0 not: if d is made of the operation's own inputs only (arguments,
                # fields of the vectors as they were on entry), nothing stops it from being positive
                d = L - first[0][1]
                if d.m and _plain(d) \
                        and implies(F, ("ge0", d)) and not implies(F, ("eq0", d)) and what != "the return":
                    return ("violation", "exposed", "%s runs while the length (%s) is ahead of the slots that hold values ([0, %s)) by %s, which is positive "
                            "whenever the inputs make it so: a panic there leaves never-written slots visible" % (what, L, first[0][1], d), e)
            if first:
                # a hole [h, a2) below LEN
                h = first[0][1]
                for (a2, b2) in ivs:
                    if (a2, b2) != first[0] and _lt(F, h, a2) and _le(F, a2, L) and _lt(F, h, L):
                        return ("violation", "exposed", "%s runs while the slots [%s, %s) inside the visible length %s hold no value" % (what, h, a2, L), e)
        return None

    def apply(accts, e):
        """-> violation tuple or None; raises Undecided"""
        F = e["facts"] or frozenset()
        k = e.kind
        if k == "STORE":
            if cursor is not None and e["path"] in (cursor["idx_path"], cursor["end_path"]):
                accts.setdefault("$cursor", dict(cursor["init"]))
                accts["$cursor"] = dict(accts["$cursor"])
                accts["$cursor"]["idx" if e["path"] == cursor["idx_path"] else "end"] = as_poly(e["value"])
                return None
            if not is_len_path(e["path"]):
                return None
            lp = e["path"]
            mp = (lp[0], tuple(lp[1][:-1]) + ("mem",))
            a = acct(accts, mp, F)
            a.len = as_poly(e["value"])
            return None
        if k == "DESTROY":
            r = _rng(e["ptr"], e["n"], e["ety"], "destroy")
            if r is None:
                return user_point(accts, F, e, "a destructor")
            mp, lo, hi = r
            a = acct(accts, mp, F)
            v = user_point(accts, F, e, "a destructor")
            if v:
                return v
            if cursor is not None:
                cur = accts.get("$cursor", cursor["init"])
                inside = _le(F, cur["idx"], lo) and _le(F, hi, cur["end"])
                maybe_nonempty = (hi - lo).m and not implies(F, ("eq0", hi - lo))
                if inside and maybe_nonempty:
                    return ("violation", "double", "the slots [%s, %s) are destroyed while the handle still counts them as not yet yielded (its range is [%s, %s)): if "
                            "this destructor panics, the handle's own destructor destroys them again" % (lo, hi, cur["idx"], cur["end"]), e)
            if not _contains(F, a.ivs, lo, hi):
                if a.ivs and _disjoint_all(F, a.ivs, lo, hi) and _lt(F, lo, hi):
                    return ("violation", "double", "the slots [%s, %s) are destroyed although they hold no value (already destroyed or moved out)" % (lo, hi), e)
                if not a.ivs and _lt(F, lo, hi):
                    return ("violation", "double", "the slots [%s, %s) are destroyed although no slot holds a value" % (lo, hi), e)
                raise Undecided("destroyed range [%s, %s) against %s" % (lo, hi, a.ivs))
            a.ivs = _remove(F, a.ivs, lo, hi)
            return None
        if k == "COPY":
            src = _rng(e["src"], e["n"], e["ety"], "copy source")
            dst = _rng(e["dst"], e["n"], e["ety"], "copy destination")
            if src is None and dst is None:
                return None
            if src is not None:
                mp, lo, hi = src
                a = acct(accts, mp, F)
                if not _contains(F, a.ivs, lo, hi):
                    if _disjoint_all(F, a.ivs, lo, hi) and _lt(F, lo, hi):
                        return ("violation", "double", "the slots [%s, %s) are moved although they hold no value (already destroyed or moved out)" % (lo, hi), e)
                    raise Undecided("copied range [%s, %s) against %s" % (lo, hi, a.ivs))
                a.ivs = _remove(F, a.ivs, lo, hi)
            if dst is not None:
                mp, lo, hi = dst
                a = acct(accts, mp, F)
                if lo != hi:
                    if not _disjoint_all(F, a.ivs, lo, hi):
                        if _contains(F, a.ivs, lo, hi) and no_destructor(F):
                            a.ivs = _remove(F, a.ivs, lo, hi)       # values without drop glue are simply overwritten
                        elif _contains(F, a.ivs, lo, hi) and _lt(F, lo, hi):
                            return ("violation", "overwrite", "the slots [%s, %s) are overwritten while they hold values that were neither destroyed nor moved" % (lo, hi), e)
                        else:
                            raise Undecided("written range [%s, %s) against %s" % (lo, hi, a.ivs))
                    a.ivs = _merge(a.ivs + [(lo, hi)])
            return None
        if k == "SWAP":
            for side in ("a", "b"):
                r = _rng(e[side], e["n"], e["ety"], "swap")
                if r is None:
                    continue
                mp, lo, hi = r
                a = acct(accts, mp, F)
                if not _contains(F, a.ivs, lo, hi):
                    raise Undecided("swapped range [%s, %s) against %s" % (lo, hi, a.ivs))
            return None
        if k in ("WRITE", "MOVE_INTO", "CLONE_INTO"):
            ptr = e["dst"] if k == "WRITE" else e["out"]
            r = _rng(ptr, None, None, "write")
            if k != "WRITE":
                v = user_point(accts, F, e, "a value's move_into / clone_into")
                if v:
                    return v
            if r is None:
                return None
            mp, lo, hi = r
            a = acct(accts, mp, F)
            if not _disjoint_all(F, a.ivs, lo, hi):
                if _contains(F, a.ivs, lo, hi) and no_destructor(F):
                    a.ivs = _remove(F, a.ivs, lo, hi)
                elif _contains(F, a.ivs, lo, hi):
                    return ("violation", "overwrite", "slot %s is overwritten while it holds a value that was neither destroyed nor moved" % lo, e)
                else:
                    raise Undecided("written slot %s against %s" % (lo, a.ivs))
            a.ivs = _merge(a.ivs + [(lo, hi)])
            return None
        if k == "READ":
            r = _rng(e["src"], None, None, "read")
            if r is None:
                return None
            mp, lo, hi = r
            a = acct(accts, mp, F)
            if not _contains(F, a.ivs, lo, hi):
                if _disjoint_all(F, a.ivs, lo, hi):
                    return ("violation", "double", "slot %s is moved out (ptr::read) although it holds no value" % lo, e)
                raise Undecided("read slot %s against %s" % (lo, a.ivs))
            a.ivs = _remove(F, a.ivs, lo, hi)
            return None
        if k == "CLONE":
            v = user_point(accts, F, e, "a clone function")
            if v:
                return v
            r = _rng(e["dst"], e["n"], "elements", "clone destination")
            if r is None:
                return None
            mp, lo, hi = r
            a = acct(accts, mp, F)
            if lo != hi:
                if not _disjoint_all(F, a.ivs, lo, hi):
                    if _contains(F, a.ivs, lo, hi) and no_destructor(F):
                        a.ivs = _remove(F, a.ivs, lo, hi)
                    elif _contains(F, a.ivs, lo, hi) and _lt(F, lo, hi):
                        return ("violation", "overwrite", "clones are written over the slots [%s, %s), which hold values" % (lo, hi), e)
                    else:
                        raise Undecided("clone destination [%s, %s) against %s" % (lo, hi, a.ivs))
                a.ivs = _merge(a.ivs + [(lo, hi)])
            return None
        if k in ("USER", "UNKNOWN"):
            return user_point(accts, F, e, "user code (%s)" % (e.get("what") or "call"))
        return None

    def no_destructor(F):
        """the path runs for an element type without drop glue (drop_fn is None / needs_drop is false): slots need no destruction"""
        for ff in F:
            r_ = repr(ff)
            if ff[0] in ("eq0", "ne0") and "drop_fn" in r_ and "discr" in r_ and isinstance(ff[1], Poly):
                c = ff[1].m.get((), 0)
                if (ff[0] == "eq0" and c == 0) or (ff[0] == "ne0" and c != 0):
                    return True       # Option discriminant of the stored destructor is None
            if ff[0] == "isfalse" and "needs_drop" in r_:
                return True
        return False

    def at_return(accts, r):
        F = r["facts"] or frozenset()
        for mp, a in accts.items():
            if mp in ("$cursor", "$yields") or mp[0][0] not in TRACKED:
                continue
            L = a.len
            ivs = _merge(a.ivs)
            if no_destructor(F):
                # elements without drop glue left outside the visible length are simply forgotten
                ivs = [(lo, hi) for (lo, hi) in ivs if not _le(F, L, lo)]
                ivs = [(lo, L) if (lo == Poly() and _le(F, L, hi)) else (lo, hi) for (lo, hi) in ivs]
            if returns_handle:
                # the operation is finished by the handle it returns (removal handle, drain / splice iterator): only exposure is judged here
                v = user_point({mp: a}, F, r, "the return")
                if v:
                    return v
                if cursor is not None and not no_destructor(F):
                    # a method that leaves the range handle alive: what its cursors passed over is either handed out as an item or destroyed - a slot that
                    # still holds a value, lies outside the new [index, end) and was not yielded is never destroyed (the handle's destructor only covers
                    # [index, end), the vector's only [0, LEN))
                    cur = accts.get("$cursor", cursor["init"])
                    i0, e0 = cursor["init"]["idx"], cursor["init"]["end"]
                    orphan = Poly()
                    if cur["idx"] != i0 and _contains(F, ivs, i0, cur["idx"]):
                        orphan = orphan + (cur["idx"] - i0)
                    if cur["end"] != e0 and _contains(F, ivs, cur["end"], e0):
                        orphan = orphan + (e0 - cur["end"])
                    orphan = orphan - Poly.const(accts.get("$yields", 0))
                    if orphan.m and _plain(orphan) \
                            and implies(F, ("ge0", orphan)) and not implies(F, ("eq0", orphan)):
                        return ("violation", "leak", "the cursors move past %s more slot(s) than are handed out as items, and those slots still hold values: whenever that "
                                "number is positive the skipped elements are never destroyed (neither the handle's destructor nor the vector's covers them)" % orphan, r)
                continue
            v = user_point({mp: a}, F, r, "the return")
            if v:
                return v
            for (lo, hi) in ivs:
                if _lt(F, lo, hi) and _le(F, L, lo):
                    return ("violation", "leak", "the operation returns with the slots [%s, %s) holding values outside the visible length %s: they are never destroyed" % (lo, hi, L), r)
            ok = (not ivs and (L == Poly() or implies(F, ("eq0", L)))) or \
                 (len(ivs) == 1 and ivs[0][0] == Poly() and (ivs[0][1] == L or implies(F, ("eq0", ivs[0][1] - L))))
            if not ok and may_mode and len(ivs) == 1 and ivs[0][0] == Poly():
                # a handle-consuming operation: the handle's invariants bound its fields but leave them free otherwise. If they force LEN - h >= 0 (or <= 0)
                # without forcing LEN == h, the states in which the difference is positive are exactly those the invariants allow (a cursor moved from the
                # back / front): the operation is wrong for them
                d = L - ivs[0][1]
                plain = _plain(d)
                if plain and d.m and not implies(F, ("eq0", d)):
                    if implies(F, ("ge0", d)):
                        return ("violation", "exposed", "the operation returns with length %s while only [0, %s) hold values: whenever %s > 0 - a state the handle's "
                                "invariants allow - the last slots inside the visible length are empty (moved-out duplicates are destroyed again)" % (L, ivs[0][1], d), r)
                    if implies(F, ("ge0", -d)):
                        return ("violation", "leak", "the operation returns with length %s while [0, %s) hold values: whenever %s > 0 - a state the handle's "
                                "invariants allow - the last values are outside the visible length and never destroyed" % (L, ivs[0][1], -d), r)
            if not ok:
                raise Undecided("at the return the initialised slots are %s and the length is %s" % (ivs, L))
        return None

    # depth-first over normal edges; a node may repeat on a path only if the cycle holds no relevant effect
    verdict = [("ok",)]
    undecided = []
    paths = [0]

    class PE:
        """an effect seen with the facts of the path it was reached on (the branch facts of every edge taken) added to its own must-facts"""
        __slots__ = ("e", "pf", "kind", "gid", "node", "d")

        def __init__(self, e, pf):
            self.e, self.pf, self.kind, self.gid, self.node, self.d = e, pf, e.kind, e.gid, e.node, e.d

        def __getitem__(self, k):
            if k == "facts":
                return (self.e["facts"] or frozenset()) | self.pf
            return self.e[k]

        def get(self, k, default=None):
            return self.e.get(k, default)

    import time as _time
    t0 = _time.time()

    def dfs(g, accts, onpath, pf):
        steps[0] += 1
        if steps[0] > MAX_STEPS or (steps[0] % 20 == 0 and _time.time() - t0 > MAX_SECONDS):
            raise Undecided("too many paths")
        if g in onpath:
            cyc = onpath[onpath.index(g):]
            if any(x in rel_nodes for x in cyc):
                raise Undecided("effects inside a loop")
            return None
        for e in I.effects_at(g):
            try:
                if e.kind == "RETURN":
                    v = at_return(accts, PE(e, pf))
                    paths[0] += 1
                    return v
                if e.kind == "ENTER" and cursor is not None and e["callee"].startswith("element::ElementPointer") and e["callee"].endswith("::new"):
                    accts["$yields"] = accts.get("$yields", 0) + 1
                if e.kind in RELEVANT:
                    v = apply(accts, PE(e, pf))
                    if v:
                        return v
            except Undecided as u:
                # this path cannot be decided; the others still are
                if str(u) in ("too many paths", "effects inside a loop"):
                    raise
                undecided.append(str(u)[:200])
                return None
        tk = I.g.nodes[g].data["term"].get("k")
        if tk == "resume" or (I.g.nodes[g].cleanup and not I._succs(g, normal_only=False)):
            # the operation is left by unwinding (after the cleanup code - scope guards included - has run): what stays visible must hold values
            try:
                class _R:
                    kind, gid, node, d = "RESUME", g, I.g.nodes[g], {}

                    def __getitem__(self, k):
                        return pf if k == "facts" else None

                    def get(self, k, default=None):
                        return default
                v = user_point(accts, pf, _R(), "unwinding out of the operation (after its cleanup code ran)")
                paths[0] += 1
                return v
            except Undecided as u:
                undecided.append(str(u)[:200])
                return None
        # unwinding starts only where something can actually panic or run user code (MIR gives every call an unwind edge; accessors do not unwind)
        can_unwind = I.g.nodes[g].cleanup or any(e.kind in ("DESTROY", "CLONE", "CLONE_INTO", "MOVE_INTO", "USER", "UNKNOWN", "RESERVE", "PANIC", "ASSERT",
                                                            "UNWRAP", "CHECKED_UNWRAP", "BUILD") for e in I.effects_at(g))
        succs = I._succs(g, normal_only=not can_unwind)
        onpath2 = onpath + [g]
        for i, s in enumerate(succs):
            pf2 = pf
            if len(succs) > 1:
                pf2 = pf | edge_facts(I, g, s)
                if _inconsistent(pf2):
                    continue          # the branch facts contradict what was assumed earlier on this path: not a path of the program
            a2 = {k: (v.copy() if k not in ("$cursor", "$yields") else (dict(v) if k == "$cursor" else v)) for k, v in accts.items()} if i < len(succs) - 1 else accts
            v = dfs(s, a2, onpath2, pf2)
            if v:
                return v
        return None
    import sys
    old = sys.getrecursionlimit()
    sys.setrecursionlimit(max(old, 20000))
    try:
        v = dfs(entry, accts0, [], frozenset())
    except Undecided as u:
        return ("undecided", str(u)[:200])
    except RecursionError:
        return ("undecided", "path too deep")
    finally:
        sys.setrecursionlimit(old)
    if v:
        return v
    if undecided:
        return ("undecided", "%d path(s): %s" % (len(undecided), undecided[0]))
    return ("ok",)
