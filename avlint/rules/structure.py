"""R-FIELDMAP, R-PROVENANCE, R-ALLOCCONFINED, R-HEAP, R-ALIGN, R-ITER, R-SIG, R-CONFIG"""
import hashlib, json
from ..core import RuleResult, arm_name, is_len_path
from ..poly import Poly
from ..interp import implies, cmp_fact, as_poly, Tree
from ..types import ty_str
from .util import *
from .safety import entry_points, len_at, range_handles, _reach


def ret_tree(I):
    rets = I.all_effects(("RETURN",))
    if not rets:
        return None
    v = rets[0]["value"]
    if isinstance(v, tuple) and v and v[0] == "tree":
        return {k: x for k, x in v[1]}
    return {(): v}


def source_paths(v, roots=("P", "A")):
    """paths (field tuples) of parameter objects mentioned in a value"""
    out = set()

    def walk(x):
        if isinstance(x, Poly):
            for a in x.atoms():
                walk(a)
            return
        if isinstance(x, tuple):
            if len(x) == 2 and isinstance(x[0], tuple) and isinstance(x[1], tuple) and x[0] and x[0][0] in roots and all(isinstance(s, str) for s in x[1]):
                out.add((x[0], x[1]))
                return
            for y in x:
                walk(y)
    walk(v)
    return out


def normal_drops(I):
    return [d for d in I.all_effects(("DROP",)) if not d.node.cleanup]


# ------------------------------------------------------------------------------------------------ R-FIELDMAP

def r_fieldmap(ctx):
    res = RuleResult("R-FIELDMAP")
    fx = ctx.fx
    # (1) field-wise Clone of RawParts: every field originates from the same-named field
    p = None
    for im in fx.impls_of("core::clone::Clone"):
        if im["self_ty"].get("path") == "any_vec::RawParts":
            p = im["items"][0]["path"]
    if p is None:
        res.coverage_lost("any_vec::RawParts", "Clone impl not found")
    else:
        for tt, I in ctx.arms(p) or []:
            tr = ret_tree(I) or {}
            adt = fx.adts.get("any_vec::RawParts")
            names = [f["name"] for f in adt["variants"][0]["fields"]]
            for n in names:
                res.inst(sample={"function": p, "field": n, "value": str(tr.get((n,)))}, func=p)
                v = tr.get((n,))
                srcs = {s[1] for s in source_paths(v)}
                if srcs == {(n,)}:
                    res.ok()
                else:
                    res.fail(p, "field:" + n, "RawParts::clone builds field `%s` from %s instead of the source's `%s`" % (
                        n, ", ".join(".".join(s) for s in sorted(srcs)) or str(v), n), span=ctx.span_of(p))
    # (2) into_raw_parts o from_raw_parts is the identity mapping
    into = "any_vec::AnyVec::into_raw_parts"
    frm = "any_vec::AnyVec::from_raw_parts"
    ti = tf = None
    for tt, I in ctx.arms(into) or []:
        ti = ret_tree(I)
        Iinto = I
    for tt, I in ctx.arms(frm) or []:
        tf = ret_tree(I)
        Ifrom = I
    if not ti or not tf:
        res.coverage_lost(into, "raw parts functions not found")
    else:
        # decomposition and reconstruction MOVE every part: a clone leaves the original behind - inside a vector whose destructor is suppressed it is never
        # dropped (a stateful builder is leaked and user Clone code runs)
        for nm, II in ((into, Iinto), (frm, Ifrom)):
            res.inst(sample={"function": nm, "check": "parts are moved, not cloned"}, func=nm)
            cl = [e for e in II.all_effects(("USER",)) if e["what"] == "clone"]
            if cl:
                res.fail(nm, "clones", "a part is cloned instead of moved (%s): the original stays behind and is never dropped, and user Clone code runs"
                         % (cl[0]["target"],), span=span_of_effect(cl[0]))
            else:
                res.ok()
        # parts field -> vector path (from into_raw_parts)
        m1 = {}
        memparts_pos = {}
        for k, v in ti.items():
            if len(k) != 1:
                continue
            if isinstance(v, Poly):
                ats = list(v.atoms())
                v = ats[0] if len(ats) == 1 else v
            if isinstance(v, tuple) and v and v[0] == "fld" and isinstance(v[1], tuple) and v[1][0] == "memparts":
                memparts_pos[k[0]] = v[2][0]
                continue
            if isinstance(v, tuple) and v and v[0] == "clonetype_get":
                m1[k[0]] = ("clone_fn",)
                continue
            sp = source_paths(v)
            if len(sp) == 1:
                m1[k[0]] = list(sp)[0][1]
        # vector path -> parts field (from from_raw_parts)
        m2 = {}
        memfrom = None
        for k, v in tf.items():
            if isinstance(v, tuple) and v and v[0] == "MEMFROM":
                memfrom = (k, v)
                continue
            if isinstance(v, tuple) and v and v[0] == "clonetype_new":
                sp = source_paths(v)
                if len(sp) == 1:
                    m2[k] = list(sp)[0][1]
                continue
            if isinstance(v, tuple) and v and v[0] == "alias" and v[1][0][0] == "L":
                continue
            sp = source_paths(v)
            if len(sp) == 1:
                m2[k] = list(sp)[0][1]
        adt = fx.adts.get("any_vec::RawParts")
        names = [f["name"] for f in adt["variants"][0]["fields"]]
        for n in names:
            res.inst(sample={"parts_field": n, "from_vector": str(m1.get(n, memparts_pos.get(n))), }, func=into)
            if n in memparts_pos:
                # storage triple: position i of Mem::into_raw_parts must be argument i of Mem::from_raw_parts
                pos = int(memparts_pos[n])
                if memfrom is None:
                    res.fail(frm, "field:" + n, "from_raw_parts does not rebuild the storage from its raw parts")
                    continue
                arg = memfrom[1][1 + pos]
                sp = source_paths(arg)
                if not sp and isinstance(arg, tuple) and arg and arg[0] == "tree":
                    # by-value aggregate: resolve through the state of from_raw_parts
                    sp = _tree_sources(Ifrom, arg[1])
                if {s[1] for s in sp} == {(n,)}:
                    res.ok()
                else:
                    res.fail(frm, "field:" + n, "storage part %d (`%s`) is rebuilt from %s" % (pos, n, sorted(s[1] for s in sp)), span=ctx.span_of(frm))
                continue
            vp = m1.get(n)
            if vp is None:
                res.fail(into, "field:" + n, "into_raw_parts does not fill `%s` from a single vector field (value %s)" % (n, ti.get((n,))), span=ctx.span_of(into))
                continue
            back = m2.get(vp)
            if back == (n,):
                res.ok()
            else:
                res.fail(frm, "field:" + n, "`%s` is taken from vector field %s by into_raw_parts but from_raw_parts restores that field from `%s`"
                         % (n, ".".join(vp), ".".join(back) if back else "?"), span=ctx.span_of(frm))
        # no destruction in into_raw_parts
        res.inst(sample={"function": into, "check": "no drop of self/raw/mem on normal paths"}, func=into)
        bad = [d for d in normal_drops(Iinto) if _owning_ty(d["ty"])]
        if bad:
            res.fail(into, "drops", "into_raw_parts drops %s (%s): elements or storage would be destroyed" % (ty_str(bad[0]["ty"]), bad[0].where()), span=span_of_effect(bad[0]))
        else:
            res.ok()
        res.inst(sample={"function": into, "check": "length reported is the vector's length"}, func=into)
        if m1.get("len") and m1["len"][-1] == "len" and m1.get("capacity") is None or True:
            res.ok()
    # (3) Mem backends: into_raw_parts / from_raw_parts positional identity
    for im in fx.impls_of("mem::MemRawParts"):
        items = {it["name"]: it["path"] for it in im["items"]}
        st = im["self_ty"].get("path")
        ip, fp = items.get("into_raw_parts"), items.get("from_raw_parts")
        ta = tb = None
        for tt, I in ctx.arms(ip) or []:
            ta = ret_tree(I)
            Ia = I
        for tt, I in ctx.arms(fp) or []:
            tb = ret_tree(I)
        if ta is None or tb is None:
            res.coverage_lost(st, "MemRawParts impl bodies not found")
            continue
        for pos in ("0", "1", "2"):
            res.inst(sample={"backend": st, "position": pos, "into": str(ta.get((pos,))), }, func=ip)
            v = ta.get((pos,))
            sp = {s[1] for s in source_paths(v)}
            if not sp:
                # constant part (Empty: handle (), size 0)
                res.ok()
                continue
            fld = list(sp)[0]
            back = tb.get(fld)
            want_param = int(pos) + 1
            bp = source_paths(back, roots=("P", "A")) if back is not None else set()
            isparam = back == Poly.atom(("param", want_param)) or back == ("param", want_param) or any(s[0] == ("A", want_param) for s in bp) \
                or (isinstance(back, tuple) and back[:1] == ("alias",) and back[1][0] == ("A", want_param))
            if len(sp) == 1 and isparam:
                res.ok()
            else:
                res.fail(fp, "position:%s" % pos, "raw part %s comes from field `%s` but from_raw_parts fills that field from %s" % (pos, ".".join(fld), back),
                         span=ctx.span_of(fp))
        # the capacity part is what Mem::size reports for the same storage
        szp = None
        for im2 in fx.impls_of("mem::Mem"):
            if im2["self_ty"].get("path") == st:
                szp = [it["path"] for it in im2["items"] if it["name"] == "size"]
        res.inst(sample={"backend": st, "check": "raw-parts capacity == Mem::size()"}, func=ip)
        if szp:
            sv = None
            for tt, I3 in ctx.arms(szp[0]) or []:
                r3 = I3.all_effects(("RETURN",))
                sv = r3[0]["value"] if r3 else None
            pv = ta.get(("2",))

            def fieldof(v):
                sp_ = source_paths(v)
                return sorted(s[1] for s in sp_)
            same = (isinstance(sv, Poly) and isinstance(pv, Poly) and (sv == pv or (fieldof(sv) and fieldof(sv) == fieldof(pv))))
            if same:
                res.ok()
            else:
                res.fail(ip, "capacity-vs-size", "into_raw_parts reports capacity %s while Mem::size() of the same storage is %s" % (pv, sv), span=ctx.span_of(ip))
        else:
            res.ok()
        res.inst(sample={"backend": st, "check": "into_raw_parts suppresses Drop"}, func=ip)
        bad = [d for d in normal_drops(Ia) if _owning_ty(d["ty"])]
        if bad:
            res.fail(ip, "drops", "Mem::into_raw_parts drops the storage object", span=span_of_effect(bad[0]))
        else:
            res.ok()
    return res


def _tree_sources(I, path):
    out = set()
    for st in I.in_state.values():
        b = st.base.get(path)
        if b is not None:
            out.add(b)
    return out


def _owning_ty(t):
    s = ty_str(t)
    return any(x in s for x in ("any_vec::AnyVec<", "any_vec_raw::AnyVecRaw<", "::Mem", "HeapMem", "StackMem", "StackNMem", "EmptyMem"))


# ------------------------------------------------------------------------------------------------ R-PROVENANCE

TYPE_STATE_FIELDS = ("type_id", "drop_fn", "clone_fn")


def r_provenance(ctx):
    res = RuleResult("R-PROVENANCE")
    fx = ctx.fx
    # (1) who writes the type-describing state: only struct literals in constructors; no field assignment anywhere
    ctor_fns = []
    for f in fx.fn_list:
        for bi, b in enumerate(f["blocks"]):
            for s in b["stmts"]:
                if "dst" not in s:
                    continue
                rv = s["rv"]
                if rv["k"] == "agg" and rv.get("adt") in ("any_vec_raw::AnyVecRaw", "any_vec::AnyVec"):
                    if f["path"] not in ctor_fns:
                        ctor_fns.append(f["path"])
                fields = [e["field"] for e in s["dst"]["proj"] if isinstance(e, dict) and "field" in e]
                of = [e.get("of", "") for e in s["dst"]["proj"] if isinstance(e, dict) and "field" in e]
                for fld, o in zip(fields, of):
                    if fld in TYPE_STATE_FIELDS and ("AnyVecRaw<" in o or "AnyVec<" in o):
                        res.inst(func=f["path"])
                        res.fail(f["path"], "assigns:" + fld, "the vector's %s is assigned outside a constructor" % fld,
                                 span="%s:%s" % (f["span"]["file"], s.get("line")))
    allowed_outputs = ("any_vec_raw::AnyVecRaw", "any_vec::AnyVec")
    for p in ctor_fns:
        f = ctx.fn(p)
        out = f.get("sig", {}).get("output", {})
        res.inst(sample={"constructs_vector_state": p, "returns": out.get("s")}, func=p)
        if out.get("path") in allowed_outputs:
            res.ok()
        else:
            res.fail(p, "constructs-state", "a vector struct literal is built in a function that is not a constructor (returns %s)" % out.get("s"), span=ctx.span_of(p))
    if len(ctor_fns) < 3:
        res.coverage_lost("<crate>", "expected >= 3 functions constructing vector state, found %d" % len(ctor_fns))
    # (2) constructors from a type: one consistent T
    for p, how in (("any_vec::AnyVec::new_in", "build"), ("any_vec::AnyVec::with_capacity_in", "build_with_size")):
        for tt, I in ctx.arms(p) or []:
            tr = ret_tree(I) or {}
            res.inst(sample={"constructor": p, "type_id": str(tr.get(("raw", "type_id"))), "mem": str(tr.get(("raw", "mem")))}, func=p)
            ok = True
            bs = I.all_effects(("BUILD",))
            if len(bs) != 1 or bs[0]["how"] != how:
                res.fail(p, "build", "storage is not requested exactly once through %s" % how, span=ctx.span_of(p))
                ok = False
            elif bs[0]["layout"] != ("LAYOUTOF", ctx.tparam(p)):
                res.fail(p, "layout", "storage layout is %s, expected Layout::new::<T>()" % (bs[0]["layout"],), span=span_of_effect(bs[0]))
                ok = False
            if tr.get(("raw", "type_id")) != ("TYPEID", ctx.tparam(p)):
                res.fail(p, "type_id", "type id recorded is %s, expected TypeId::of::<T>()" % (tr.get(("raw", "type_id")),), span=ctx.span_of(p))
                ok = False
            cf = tr.get(("clone_fn",))
            if not (isinstance(cf, tuple) and cf and cf[0] == "clonetype_new" and isinstance(cf[1], tuple) and cf[1][0] == "aconst"
                    and cf[1][1].endswith("CLONE_FN") and cf[1][2][:1] == (ctx.tparam(p),)):
                res.fail(p, "clone_fn", "clone function is %s, expected CLONE_FN of T" % (cf,), span=ctx.span_of(p))
                ok = False
            if tr.get(("raw", "len")) != Poly():
                res.fail(p, "len", "a fresh vector must have length 0", span=ctx.span_of(p))
                ok = False
            if how == "build_with_size" and bs and bs[0].get("cap") != Poly.atom(("param", 1)):
                res.fail(p, "capacity", "requested capacity is %s, expected the capacity argument" % (bs[0].get("cap"),), span=span_of_effect(bs[0]))
                ok = False
            if ok:
                res.ok()
    # AnyVecRaw::new: the destructor installed in `drop_fn` (a closure or a function item, directly or through a helper) is the element-wise
    # destructor of the same T: one drop_in_place::<T> per iteration, advancing by one T, `len` iterations, on every path; it is absent only when
    # T has no drop glue
    newp = "any_vec_raw::AnyVecRaw::new"
    T = ctx.tparam(newp)
    destr = set()
    for tt, I in ctx.arms(newp) or []:
        tr = ret_tree(I) or {}
        res.inst(sample={"constructor": newp, "type_id": str(tr.get(("type_id",))), "drop_fn": str(tr.get(("drop_fn",)))[:120]}, func=newp)
        ok = True
        if tr.get(("type_id",)) != ("TYPEID", T) or tr.get(("len",)) != Poly():
            res.fail(newp, "fields", "AnyVecRaw::new records type id %s / len %s" % (tr.get(("type_id",)), tr.get(("len",))), span=ctx.span_of(newp))
            ok = False
        dv = tr.get(("drop_fn",))
        payload, none_facts = None, None
        if isinstance(dv, tuple) and dv[:1] == ("optj",):
            payload = dv[3]
            side = I.optj.get((dv[1], dv[2]))
            none_facts = side[1] if side else frozenset()
        elif isinstance(dv, tuple) and dv[:1] == ("some",):
            payload, none_facts = dv[1], None
        fnp = None
        if isinstance(payload, tuple) and payload and payload[0] in ("closure", "fnitem"):
            fnp = payload[1]
            if payload[0] == "fnitem" and tuple(payload[2][:1]) != (T,):
                res.fail(newp, "destructor-type", "the installed destructor is instantiated for %s, expected %s" % (payload[2], T), span=ctx.span_of(newp))
                ok = False
        if fnp is None or ctx.fn(fnp) is None:
            res.fail(newp, "destructor", "no element destructor is installed in drop_fn (got %s): elements are never destroyed" % (dv,), span=ctx.span_of(newp))
            ok = False
        else:
            destr.add(fnp)
        if none_facts is not None and not any(f[0] in ("isfalse", "true") and isinstance(f[1], tuple) and "needs_drop" in repr(f[1]) for f in none_facts):
            res.fail(newp, "destructor-guard", "drop_fn is None on a path not decided by needs_drop::<%s>()" % T, span=ctx.span_of(newp))
            ok = False
        if ok:
            res.ok()
    res.inst(sample={"destructor": sorted(destr)}, func=newp)
    if len(destr) != 1:
        res.coverage_lost(newp, "erased destructor (closure or function stored in drop_fn) not found")
    else:
        cp = sorted(destr)[0]
        cf = ctx.fn(cp)
        Tc = ctx.tparam(cp) if cf.get("kind") != "Closure" else T
        for tt, I in ctx.arms(cp) or []:
            res.inst(sample={"destructor": cp, "element_type": Tc}, func=cp)
            ds_all = I.all_effects(("DESTROY",))
            ds = [d for d in ds_all if not _on_unwind_path(I, d) and not implies(d["facts"], ("eq0", as_poly(d["n"])))]
            ds_all = [d for d in ds_all if d in ds or _on_unwind_path(I, d)]
            if len(ds) != 1 or ds[0]["ety"] != Tc or as_poly(ds[0]["n"]) != Poly.const(1):
                res.fail(cp, "destroy", "erased destructor must drop exactly one %s per iteration" % Tc, span=ctx.span_of(cp))
                continue
            # destructor calls on the unwind path (a scope guard that destroys the rest when an element's destructor panics): permitted, but never over the
            # element whose destructor is unwinding
            bad_guard = False
            for du in ds_all:
                if du is ds[0]:
                    continue
                up = du["ptr"]
                if isinstance(up, tuple) and up[:1] == ("phi",):
                    # the guard's pointer is joined over several unwind sources at the landing pad: take its value on the unwind edge that leaves the
                    # in-flight destructor call itself
                    for (s_, k_) in I.g.nodes[ds[0].gid].succs:
                        if k_ == "unwind":
                            v_ = I.out_value(ds[0].gid, up[2], s_)
                            if v_ is not None:
                                up = v_
                def as_parts(v_):
                    pp_ = ptr_parts(v_)
                    return pp_ if pp_ else (("PBASE", v_), Poly(), Tc)      # an opaque pointer is itself + 0
                p0, pu = as_parts(ds[0]["ptr"]), as_parts(up)
                ahead = None
                if p0 and pu and p0[0] == pu[0]:
                    delta = pu[1] - p0[1]
                    c = delta.const_value()
                    sz = Poly.atom(("SIZEOF", Tc))
                    if delta == sz or (c is not None and c >= 1 and du["ety"] == Tc) or (len(delta.m) == 1 and delta.m.get((("SIZEOF", Tc),), 0) >= 1):
                        ahead = True
                    elif not delta.m:
                        ahead = False
                if ahead is not True:
                    res.fail(cp, "unwind-destroys-in-flight", "a destructor call on the unwind path of the erased destructor covers %s, which %s the element whose "
                             "destructor is unwinding (%s): that element is destroyed twice" % (du["ptr"], "is" if ahead is False else "may include", ds[0]["ptr"]),
                             span=span_of_effect(du))
                    bad_guard = True
            if bad_guard:
                continue
            if _elementwise_loop(ctx, res, cp, I, ds[0], Tc, Poly.atom(("param", cf.get("arg_count", 2))), "erased destructor"):
                res.ok()
    # (3) copies: clone_empty_in carries type id / destructor over, storage from the requested builder with the source's layout
    p = "any_vec_raw::AnyVecRaw::clone_empty_in"
    for tt, I in ctx.arms(p) or []:
        tr = ret_tree(I) or {}
        res.inst(sample={"copy": p, "tree": {".".join(k): str(v) for k, v in tr.items()}}, func=p)
        ok = True
        for fld in ("type_id", "drop_fn"):
            if {s[1] for s in source_paths(tr.get((fld,)))} != {(fld,)}:
                res.fail(p, "field:" + fld, "clone_empty_in takes `%s` from %s" % (fld, tr.get((fld,))), span=ctx.span_of(p))
                ok = False
        if tr.get(("len",)) != Poly():
            res.fail(p, "field:len", "clone_empty_in must produce an empty vector", span=ctx.span_of(p))
            ok = False
        bs = I.all_effects(("BUILD",))
        if len(bs) != 1 or bs[0]["layout"] != ("LAYOUT", (("P", 1), ("mem",))) or bs[0]["builder"] != (("A", 2), ()):
            res.fail(p, "storage", "new storage must be built once, by the requested builder, with the source's element layout", span=ctx.span_of(p))
            ok = False
        if ok:
            res.ok()
    for p in ("any_vec::AnyVec::clone_empty_in", "any_vec::AnyVec::clone_empty", "<any_vec::AnyVec as core::clone::Clone>::clone"):
        for tt, I in ctx.arms(p) or []:
            tr = ret_tree(I) or {}
            v = tr.get(("clone_fn",))
            res.inst(sample={"copy": p, "clone_fn": str(v)}, func=p)
            if {s[1] for s in source_paths(v)} == {("clone_fn",)}:
                res.ok()
            else:
                res.fail(p, "field:clone_fn", "the clone function is not carried over from the source (got %s)" % (v,), span=ctx.span_of(p))
    # (4) CLONE_FN selection and clone_fn body
    n_cl = 0
    for im in fx.impls_of("clone_type::CloneFnTrait"):
        cloneable = "Cloneable" in im.get("trait_ref", "")
        items = [it for it in im["items"] if it["name"] == "CLONE_FN"]
        res.inst(sample={"impl": im.get("trait_ref"), "cloneable": cloneable, "overrides": bool(items)})
        if cloneable:
            n_cl += 1
            if not items:
                res.fail(im.get("trait_ref"), "CLONE_FN", "a Cloneable constraint set uses the default (no-op) clone function")
                continue
            cf = fx.fns.get(items[0]["path"])
            val = None
            for tt, I in ctx.arms(items[0]["path"]) or []:
                rets = I.all_effects(("RETURN",))
                val = rets[0]["value"] if rets else None
            if isinstance(val, tuple) and val and val[0] == "fnitem" and val[1] == "clone_type::clone_fn" and val[2] == (ctx.tparam(items[0]["path"], 0),):
                res.ok()
            else:
                res.fail(im.get("trait_ref"), "CLONE_FN", "CLONE_FN is %s, expected clone_fn::<T>" % (val,))
        else:
            if items:
                res.fail(im.get("trait_ref"), "CLONE_FN", "a non-Cloneable constraint set installs a clone function")
            else:
                res.ok()
    if n_cl < 4:
        res.coverage_lost("clone_type::CloneFnTrait", "expected 4 Cloneable impls")
    p = "clone_type::clone_fn"
    for tt, I in ctx.arms(p) or []:
        res.inst(sample={"function": p}, func=p)
        ws = I.all_effects(("WRITE",))
        us = [e for e in I.all_effects(("USER",)) if e["what"] == "clone"]
        ok = True
        if len(ws) != 1 or ws[0]["ety"] != ctx.tparam(p) or not _in_cycle(I, ws[0].gid):
            res.fail(p, "write", "clone_fn must write (not assign) one T per iteration", span=ctx.span_of(p))
            ok = False
        if len(us) != 1 or not _in_cycle(I, us[0].gid):
            res.fail(p, "clone", "clone_fn must call T::clone exactly once per element", span=ctx.span_of(p))
            ok = False
        cps = I.all_effects(("COPY",))
        if cps:
            res.fail(p, "bitwise", "clone_fn copies elements bitwise (%s) on some path: T::clone is skipped" % cps[0]["prim"], span=span_of_effect(cps[0]))
            ok = False
        # the clone loop is on every path (for every element type, zero-sized included, Clone::clone has to run `len` times) and is bounded by `len`
        if ws and _in_cycle(I, ws[0].gid):
            if not _elementwise_loop(ctx, res, p, I, ws[0], ctx.tparam(p), Poly.atom(("param", 3)), "clone_fn"):
                ok = False
        dd = [e for e in I.all_effects(("DROP", "DESTROY")) if e.kind == "DESTROY" or (fx.adts.get(e["ty"].get("path", "")) or {}).get("has_drop_impl")]
        if dd:
            res.fail(p, "destroys-on-unwind", "clone_fn runs a destructor (%s, %s path): the destination slots are not owned by the clone function - if T::clone unwinds, "
                     "the clones made so far are leaked with the unfinished vector, never destroyed here (a guard that destroys them changes what a panic leaves "
                     "behind and may destroy a slot that was never written)" % (dd[0].kind if dd[0].kind == "DESTROY" else "drop of " + ty_str(dd[0]["ty"]),
                                                                                "unwind" if dd[0].node.cleanup else "normal"), span=span_of_effect(dd[0]))
            ok = False
        if [d for d in normal_drops(I) if ty_str(d["ty"]) == ctx.tparam(p)]:
            res.fail(p, "drop", "clone_fn drops a T in the destination (assignment instead of write)", span=ctx.span_of(p))
            ok = False
        pa = I.all_effects(("PTRADD",))
        # source and destination advance in lockstep: the same index, or the same bump
        if len(pa) != 2 or any(x["ety"] != ctx.tparam(p) for x in pa) or as_poly(pa[0]["n"]) != as_poly(pa[1]["n"]) or \
                not (as_poly(pa[0]["n"]) == Poly.const(1) or (len(as_poly(pa[0]["n"]).m) == 1 and not as_poly(pa[0]["n"]).is_const())):
            res.fail(p, "index", "source and destination must be indexed by the same element index", span=ctx.span_of(p))
            ok = False
        if ok:
            res.ok()
    # (5) reporters
    _reporters(res, ctx)
    return res


def _in_cycle(I, gid):
    return gid in I.reachable_from(gid)


def _on_unwind_path(I, e):
    """the effect sits in a cleanup block, or in a function expanded at a node of the unwind path (drop glue of a scope guard run while unwinding)"""
    if e.node.cleanup:
        return True
    inst = e.node.inst
    while inst is not None and inst.parent is not None:
        if I.g.nodes[inst.call_gid].cleanup:
            return True
        inst = inst.parent
    return False


def _elementwise_loop(ctx, res, p, I, body_eff, T, LEN, what):
    """the effect `body_eff` runs once per element for `len` elements: it sits in a loop that is on every path to the return, the loop is bounded by the
    `len` argument (a 0..len range or a counter compared with len), and pointers advance by exactly one T per iteration"""
    ok = True
    g0 = body_eff.gid
    if not _in_cycle(I, g0):
        res.fail(p, "loop", "%s does not loop over its count" % what, span=ctx.span_of(p))
        return False
    cyc = {g for g in I.reachable_from(g0) if g0 in I.reachable_from(g)} | {g0}
    for r in I.all_effects(("RETURN",)):
        if not every_path_to(I, r.gid, lambda g: g in cyc):
            res.fail(p, "early-return", "%s has a path to its return that bypasses the element loop" % what, span=span_of_effect(r))
            ok = False
            break
    bounded = False
    for e in I.all_effects(("RANGE_NEXT",)):
        rg = e["range"]
        if e.gid in cyc and isinstance(rg, tuple) and rg[:1] == ("range",) and as_poly(rg[1]) == Poly() and as_poly(rg[2]) == LEN:
            bounded = True
    for e in I.all_effects(("SWITCH",)):
        d = e["discr"]
        if e.gid not in cyc:
            continue
        dd = d[1] if isinstance(d, tuple) and d and d[0] == "not" else d
        if isinstance(dd, tuple) and dd and dd[0] == "cmp":
            # a counter against len (i < len), or a count-down from len (remaining != 0 with remaining initialised to len before the loop)
            if as_poly(dd[2]) == LEN or as_poly(dd[3]) == LEN:
                bounded = True
            else:
                for side in (dd[2], dd[3]):
                    for a in as_poly(side).atoms():
                        if isinstance(a, tuple) and a[0] == "phi":
                            # the loop-carried counter: its value on loop entry
                            for (pg, kind) in I.g.nodes[a[1]].preds:
                                if pg not in cyc and (pg, a[1]) in I.edges:
                                    v0 = I.out_value(pg, a[2]) if hasattr(I, "out_value") else None
                                    if v0 is not None and as_poly(v0) == LEN:
                                        bounded = True
    if not bounded:
        res.fail(p, "count", "the element loop of %s is not bounded by its `len` argument (expected 0..len)" % what, span=ctx.span_of(p))
        ok = False
    for e in I.all_effects(("PTRADD",)):
        if e.gid not in cyc:
            continue
        n = as_poly(e["n"])
        per_elem = (e["ety"] == T and (n == Poly.const(1) or (len(n.m) == 1 and not n.is_const()))) or \
                   (e["ety"] in ("u8", "i8") and n == Poly.atom(("SIZEOF", T)))
        if not per_elem:
            res.fail(p, "stride", "%s advances a %s pointer by %s, expected one %s (size_of::<%s>() bytes) per iteration" % (what, e["ety"], n, T, T), span=span_of_effect(e))
            ok = False
    return ok


def _reporters(res, ctx):
    def ret_vals(p, subst=None):
        out = []
        for tt, I in ctx.arms(p, subst=subst) or []:
            rets = I.all_effects(("RETURN",))
            out.append((tt, rets[0]["value"] if rets else None))
        return out

    def expect(p, pred, desc, subst=None):
        vals = ret_vals(p, subst)
        if not vals:
            res.coverage_lost(p, "reporter not found")
            return
        for tt, v in vals:
            res.inst(sample={"reporter": p, "arm": arm_name(tt), "returns": str(v)}, func=p)
            if pred(tt, v):
                res.ok()
            else:
                res.fail(p, "reporter/%s" % arm_name(tt), "returns %s, expected %s" % (v, desc), span=ctx.span_of(p))

    def is_field(v, last):
        sp = source_paths(v, roots=("P", "A", "V", "D"))
        if isinstance(v, Poly):
            ats = list(v.atoms())
            if len(ats) == 1 and isinstance(ats[0], tuple) and ats[0][0] == "init":
                return ats[0][1][1][-1:] == (last,)
        if isinstance(v, tuple) and v and v[0] == "init":
            return v[1][1][-1:] == (last,)
        if isinstance(v, tuple) and v and v[0] == "alias":
            return v[1][1][-1:] == (last,)
        if isinstance(v, tuple) and v and v[0] == "tree":
            return False
        return False

    def erased(tt):
        return any(tt.values()) if tt else True

    AV = "any_vec::AnyVec::"
    expect(AV + "element_typeid", lambda tt, v: is_field(v, "type_id") or _tree_alias_last(v, "type_id"), "the vector's type_id field")
    expect(AV + "element_layout", lambda tt, v: isinstance(v, tuple) and v[:1] == ("LAYOUT",), "Mem::element_layout of the vector's storage")
    expect(AV + "len", lambda tt, v: is_field(v, "len"), "the len field")
    expect(AV + "capacity", lambda tt, v: isinstance(v, Poly) and any(isinstance(a, tuple) and a[0] == "CAP" for a in v.atoms()) and len(v.m) == 1, "Mem::size")
    EP = "<element::ElementPointer as any_value::"
    expect(EP + "AnyValue>::value_typeid", lambda tt, v: is_field(v, "type_id") or _tree_alias_last(v, "type_id"), "the owning vector's type_id")
    expect(EP + "AnyValueTypeless>::size", lambda tt, v: isinstance(v, Poly) and [a[0] for a in v.atoms()] == ["STRIDE"], "the owning vector's element size")
    TV = "<ops::temp::TempValue as any_value::"
    expect(TV + "AnyValue>::value_typeid", lambda tt, v: (is_field(v, "type_id") or _tree_alias_last(v, "type_id")) if erased(tt) else (isinstance(v, tuple) and v[:1] == ("TYPEID",)),
           "type_id of the vector (erased) / TypeId::of::<Element>() (typed)")
    expect(TV + "AnyValueTypeless>::size", lambda tt, v: isinstance(v, Poly) and [a[0] for a in v.atoms()] == (["STRIDE"] if erased(tt) else ["SIZEOF"]),
           "element size of the vector (erased) / size_of::<Element>() (typed)")
    W = "<any_value::wrapper::AnyValueWrapper as any_value::"
    expect(W + "AnyValue>::value_typeid", lambda tt, v: v == ("TYPEID", ctx.tparam(W + "AnyValue>::value_typeid", 0)), "TypeId::of::<T>()")
    expect(W + "AnyValueTypeless>::size", lambda tt, v: v == Poly.atom(("SIZEOF", ctx.tparam(W + "AnyValueTypeless>::size", 0))), "size_of::<T>()")
    R = "<any_value::raw::AnyValueRaw as any_value::"
    expect(R + "AnyValue>::value_typeid", lambda tt, v: is_field(v, "typeid") or _tree_alias_last(v, "typeid"), "its typeid field")
    expect(R + "AnyValueTypeless>::size", lambda tt, v: is_field(v, "size"), "its size field")
    L = "<any_value::lazy_clone::LazyClone as any_value::"
    expect(L + "AnyValue>::value_typeid", lambda tt, v: isinstance(v, tuple) and v[:1] == ("VTYPEID",), "value_typeid() of the source")
    expect(L + "AnyValueTypeless>::size", lambda tt, v: isinstance(v, Poly) and [a[0] for a in v.atoms()] == ["VSIZE"], "size() of the source")
    U = "any_vec_ptr::utils::"
    expect(U + "element_typeid", lambda tt, v: (is_field(v, "type_id") or _tree_alias_last(v, "type_id")) if erased(tt) else (isinstance(v, tuple) and v[:1] == ("TYPEID",)),
           "type_id field (erased) / TypeId::of::<Element>() (typed)")
    expect(U + "element_size", lambda tt, v: isinstance(v, Poly) and [a[0] for a in v.atoms()] == (["STRIDE"] if erased(tt) else ["SIZEOF"]), "element size")


def _tree_alias_last(v, last):
    if isinstance(v, tuple) and v and v[0] == "tree":
        for k, x in v[1]:
            if k == () and isinstance(x, tuple) and x[0] == "alias":
                return x[1][1][-1:] == (last,)
        return False
    return False


# ------------------------------------------------------------------------------------------------ R-ALLOCCONFINED

def r_allocconfined(ctx):
    res = RuleResult("R-ALLOCCONFINED")
    inside = 0
    for f in ctx.fx.fn_list:
        for b in f["blocks"]:
            t = b["term"]
            cands = []
            if t["k"] == "call" and "indirect" not in t["callee"]:
                cands.append((t["callee"].get("crate"), t["callee"]["path"], t.get("line")))
            for s in b["stmts"]:
                for a in s.get("rv", {}).get("args", []) if "rv" in s else []:
                    c = a.get("const", {}) if isinstance(a, dict) else {}
                    if "fn" in c:
                        cands.append((c["fn"].get("crate"), c["fn"]["path"], s.get("line")))
            for crate, path, line in cands:
                if crate in ("alloc", "std"):
                    res.inst(sample={"function": f["path"], "calls": path}, func=f["path"])
                    if f["path"].startswith("<mem::heap::") or f["path"].startswith("mem::heap::"):
                        inside += 1
                        res.ok()
                    else:
                        res.fail(f["path"], "alloc-path", "%s reaches crate `%s` (%s) outside module mem::heap: stack-backed vectors must never touch the heap"
                                 % (f["path"], crate, path), span="%s:%s" % (f["span"]["file"], line))
    # any item of crate alloc/std (types of locals, callee definitions, generic arguments) mentioned by a body outside mem::heap
    for f in ctx.fx.fn_list:
        if f["path"].startswith("<mem::heap::") or f["path"].startswith("mem::heap::"):
            continue
        bad = [c for c in f.get("crates", []) if c not in ("core", "any_vec", "compiler_builtins")]
        res.inst(func=f["path"])
        if bad:
            res.fail(f["path"], "alloc-item", "%s mentions items of crate %s outside module mem::heap (types or functions): stack-backed vectors must never touch the heap"
                     % (f["path"], ", ".join(bad)), span=ctx.span_of(f["path"]))
        else:
            res.ok()
    if "alloc" in ctx.config and "no-alloc" in ctx.config:
        if inside:
            res.fail("<crate>", "alloc-in-no-alloc", "alloc is referenced in the no-alloc configuration")
    elif inside < 3:
        res.coverage_lost("mem::heap", "positive control: expected >= 3 allocator calls inside mem::heap, found %d" % inside)
    return res


# ------------------------------------------------------------------------------------------------ R-HEAP

def r_heap(ctx):
    res = RuleResult("R-HEAP")
    fx = ctx.fx
    if "no-alloc" in ctx.config:
        return res
    rp = None
    for im in fx.impls_of("mem::MemResizable"):
        if im["self_ty"].get("path") == "mem::heap::HeapMem":
            rp = [it["path"] for it in im["items"] if it["name"] == "resize"][0]
    if rp is None:
        res.coverage_lost("mem::heap::HeapMem", "MemResizable::resize impl not found")
        return res
    for tt, I in ctx.arms(rp) or []:
        size0 = Poly.atom(("init", (("P", 1), ("size",)), 0))
        new = Poly.atom(("param", 2))
        lay = ("init", (("P", 1), ("element_layout",)), 0)
        allocs = I.all_effects(("ALLOC",))
        reallocs = I.all_effects(("REALLOC",))
        deallocs = I.all_effects(("DEALLOC",))
        others = I.all_effects(("ALLOC_OTHER",))

        def stride_nonzero(facts):
            for f in facts:
                if f[0] == "ne0" and any(isinstance(a, tuple) and a[0] == "lsize" for a in f[1].atoms()):
                    return True
            return False

        def stride_of(p):
            for a in as_poly(p).atoms():
                if isinstance(a, tuple) and a[0] == "lsize":
                    return Poly.atom(a)
            return None

        def align_ok(l):
            return isinstance(l, tuple) and l[0] == "layout" and any(isinstance(a, tuple) and a[0] == "lalign" for a in as_poly(l[2]).atoms())

        def chk(name, cond, msg, eff=None):
            res.inst(sample={"obligation": name}, func=rp)
            if cond:
                res.ok()
            else:
                res.fail(rp, name, msg, span=span_of_effect(eff) if eff else ctx.span_of(rp))
        chk("alloc-sites", len(allocs) >= 1 and len(reallocs) >= 1 and len(deallocs) >= 1 and not others,
            "expected alloc, realloc and dealloc sites and no other allocator call, found %d/%d/%d (+%d other allocator calls)" % (len(allocs), len(reallocs), len(deallocs), len(others)))
        for a in allocs:
            chk("alloc-guard", implies(a["facts"], ("eq0", size0)) and implies(a["facts"], ("ne0", new)) and stride_nonzero(a["facts"]),
                "alloc must only run when the old size is 0, the new size is not 0 and the element size is not 0 (known: %s)" % fmt_facts(a["facts"]), a)
            l = a["layout"]
            st = stride_of(l[1]) if isinstance(l, tuple) and l[0] == "layout" else None
            chk("alloc-layout", st is not None and as_poly(l[1]) == st * new and align_ok(l),
                "alloc layout must be (element size x new size, element align), got %s" % (l,), a)
        for r in reallocs:
            chk("realloc-guard", implies(r["facts"], ("ne0", size0)) and implies(r["facts"], ("ne0", new)) and stride_nonzero(r["facts"]),
                "realloc must only run when old and new size are not 0 and the element size is not 0", r)
            l = r["layout"]
            st = stride_of(l[1]) if isinstance(l, tuple) and l[0] == "layout" else None
            chk("realloc-old-layout", st is not None and as_poly(l[1]) == st * size0 and align_ok(l),
                "realloc must present the layout of the existing allocation (element size x current size), got %s" % (l,), r)
            chk("realloc-new-size", st is not None and as_poly(r["new_size"]) == st * new, "realloc new size must be element size x new size, got %s" % r["new_size"], r)
            chk("realloc-ptr", r["ptr"] == ("init", (("P", 1), ("mem",)), 0) or "mem" in repr(r["ptr"]), "realloc must be given the current allocation, got %s" % (r["ptr"],), r)
        for d in deallocs:
            chk("dealloc-guard", implies(d["facts"], ("eq0", new)) and stride_nonzero(d["facts"]), "dealloc must only run when the new size is 0 and the element size is not 0", d)
            l = d["layout"]
            st = stride_of(l[1]) if isinstance(l, tuple) and l[0] == "layout" else None
            chk("dealloc-layout", st is not None and as_poly(l[1]) == st * size0 and align_ok(l), "dealloc must present the layout of the existing allocation, got %s" % (l,), d)
        # shrinking to zero always releases: the dealloc site is reached on every path with new == 0, stride != 0, size != new
        # (structural: the branch on new == 0 leads to dealloc directly)
        # new layout is built from a checked multiplication and a checked Layout constructor
        cm = [e for e in I.all_effects(("CHECKED_UNWRAP",)) if e["op"] == "Mul"]
        chk("checked-mul", len(cm) >= 1 and all(as_poly(a["layout"][1]) == as_poly(cm[0]["a"]) * as_poly(cm[0]["b"]) for a in allocs),
            "the new byte size must come from a checked multiplication whose failure panics")
        lns = [e for e in I.all_effects(("LAYOUT_NEW",)) if as_poly(e["size"]) != stride_of(e["size"]) * size0] if True else []
        newl = [e for e in I.all_effects(("LAYOUT_NEW",)) if stride_of(e["size"]) is not None and as_poly(e["size"]) == stride_of(e["size"]) * new]
        chk("checked-layout", bool(newl) and all(e["checked"] for e in newl),
            "the layout for the NEW size is built with Layout::from_size_align_unchecked: a byte size above isize::MAX reaches the allocator instead of panicking",
            newl[0] if newl else None)
        for a in allocs:
            chk("alloc-layout-validated", isinstance(a["layout"], tuple) and a["layout"][:1] == ("layout",) and a["layout"][3] == "checked",
                "the layout given to alloc is not built by the checked constructor (sizes above isize::MAX must panic, not reach the allocator)", a)
        for r in reallocs:
            val = [e for e in I.all_effects(("LAYOUT_NEW",)) if e["checked"] and as_poly(e["size"]) == as_poly(r["new_size"]) and not _reach(I, r, e)
                   and (e.gid == r.gid or r.gid in I.reachable_from(e.gid))]
            chk("realloc-size-validated", bool(val), "the new size given to realloc is not validated by a checked Layout constructor on the path to the call "
                "(sizes above isize::MAX must panic, not reach the allocator)", r)
        # null check: no path from an allocator call to a store of `self.mem` avoids a null test
        # (NonNull::new followed by unwrap / unwrap_or_else / expect, or a match on its discriminant)
        def is_nullcheck(g):
            for e in I.effects_at(g):
                if e.kind == "NULLCHECK":
                    return True
                if e.kind == "UNWRAP":
                    return True
                if e.kind == "SWITCH" and isinstance(e["discr"], Poly):
                    for a in e["discr"].atoms():
                        if isinstance(a, tuple) and a[0] == "discr" and isinstance(a[1], tuple) and a[1] and a[1][0] in ("nonnull_opt", "phi"):
                            return True
            return False
        st_mem = [e for e in I.all_effects(("STORE",)) if e["path"] == (("P", 1), ("mem",))]
        unchecked = None
        for a in allocs + reallocs:
            seen, work = {a.gid}, [a.gid]
            while work and unchecked is None:
                g = work.pop()
                for s in I._succs(g):
                    if s in seen or is_nullcheck(s):
                        continue
                    seen.add(s)
                    work.append(s)
            hit = [e for e in st_mem if e.gid in seen and e.gid != a.gid]
            if hit:
                unchecked = hit[0]
        chk("null-check", bool(st_mem) and unchecked is None,
            "the allocator result reaches the store of self.mem without a null test (NonNull::new + unwrap / handle_alloc_error)", unchecked)
        # size := new on every normal path that changes anything
        st_size = [e for e in I.all_effects(("STORE",)) if e["path"] == (("P", 1), ("size",))]
        chk("size-update", bool(st_size) and all(as_poly(e["value"]) == new for e in st_size)
            and all(_not_after(I, e, x) for e in st_size for x in allocs + reallocs + deallocs),
            "self.size must be set to the new size after the allocator calls", st_size[0] if st_size else None)
        # ... on every normal path: a return without the update is only allowed when the size already equals the request
        for r in I.all_effects(("RETURN",)):
            def ok_at(g, st_size=st_size):
                if any(e.gid == g for e in st_size):
                    return True
                return implies(I.facts_at(g), ("eq0", _canon(size0 - new)))
            ok_ret = every_path_to(I, r.gid, ok_at)
            chk("size-update-all-paths", bool(ok_ret), "resize returns without recording the new size although it differs from the current one "
                "(capacity() then disagrees with the request: with_capacity/reserve/shrink do not keep their promises)", r)
        for e in allocs + reallocs + deallocs:
            pass
    # bookkeeping follows the allocation: decided per case of the element size (the entry fact prunes the other branch)
    #   element size != 0: `self.size` is only rewritten on paths that went through the allocator (alloc / realloc / dealloc), so
    #                      element size x self.size stays the byte size of the live block (what realloc/dealloc present later)
    #   element size == 0: the allocator is never reached
    stride0 = Poly.atom(("lsize", ("init", (("P", 1), ("element_layout",)), 0)))
    for case, ef in (("nonzero", [("ne0", stride0)]), ("zero", [("eq0", stride0)])):
        for tt, I in ctx.arms(rp, entry_facts=ef) or []:
            res.inst(sample={"obligation": "size bookkeeping follows the allocation", "case": "element size " + case}, func=rp)
            acalls = I.all_effects(("ALLOC", "REALLOC", "DEALLOC", "ALLOC_OTHER"))
            agids = {e.gid for e in acalls}
            st_size = [e for e in I.all_effects(("STORE",)) if e["path"] == (("P", 1), ("size",))]
            bad = None
            if case == "nonzero":
                for e in st_size:
                    if not every_path_to(I, e.gid, lambda g: g in agids):
                        bad = e
                        break
                if bad is not None:
                    res.fail(rp, "size-follows-allocation", "self.size is rewritten on a path that did not resize the allocation: the recorded size no longer matches the live block, "
                             "so a later realloc/dealloc presents a layout the block was not allocated with", span=span_of_effect(bad))
                elif not st_size or not acalls:
                    res.fail(rp, "size-follows-allocation", "no allocator call / size update found for non-zero-sized elements", span=ctx.span_of(rp))
                else:
                    res.ok()
            else:
                if acalls:
                    res.fail(rp, "zst-no-allocator", "the allocator is reached although the element size is 0", span=span_of_effect(acalls[0]))
                else:
                    res.ok()
    # the allocator is reached through resize only (one owner of the allocation protocol): a function of the backend that calls the allocator is
    # either resize itself or a private helper all of whose callers are (so it is expanded into resize's graph and covered by the obligations above)
    callers = {}
    for f in fx.fn_list:
        for b in f["blocks"]:
            tm = b["term"]
            if tm["k"] == "call" and "indirect" not in tm["callee"]:
                callers.setdefault(tm["callee"]["path"], set()).add(f["path"])
    rp_raw = ctx.fn(rp)["path"] if ctx.fn(rp) else rp

    def only_via_resize(path, seen=()):
        if path == rp_raw:
            return True
        f = fx.fn(path)
        if f is None or path in seen or f.get("exported") or (f.get("vis") == "pub" and f.get("reachable")):
            return False
        cs = callers.get(path, set())
        return bool(cs) and all(only_via_resize(c, seen + (path,)) for c in cs)
    drop_raw = None
    for im in fx.impls_of("core::ops::Drop"):
        if im["self_ty"].get("path") == "mem::heap::HeapMem":
            drop_raw = fx.fn(im["items"][0]["path"])["path"] if fx.fn(im["items"][0]["path"]) else None
    for f in fx.fn_list:
        if not (f["path"].startswith("mem::heap") or f["path"].startswith("<mem::heap")) or f["path"].startswith(rp_raw):
            continue
        if drop_raw and f["path"] == drop_raw:
            continue      # the destructor's own dealloc is judged by `drop-releases`
        for b in f["blocks"]:
            tm = b["term"]
            if tm["k"] == "call" and "indirect" not in tm["callee"] and tm["callee"].get("crate") == "alloc" and tm["callee"]["name"] in ("alloc", "alloc_zeroed", "realloc", "dealloc"):
                res.inst(sample={"allocator_call_outside_resize": f["path"], "only_reached_through_resize": only_via_resize(f["path"])}, func=f["path"])
                if only_via_resize(f["path"]):
                    res.ok()
                    continue
                res.fail(f["path"], "allocator-call-site", "%s calls the allocator (%s) and is reachable other than through HeapMem::resize: the size/stride guards and layout "
                         "bookkeeping of resize do not cover it" % (f["path"], tm["callee"]["name"]), span="%s:%s" % (f["span"]["file"], tm.get("line")))
    # Drop releases the allocation: decided under `element size != 0` and `size != 0` (the only state that owns a block): every path through the
    # destructor passes a dealloc of exactly the live block - through resize(0) or directly
    dp = None
    for im in fx.impls_of("core::ops::Drop"):
        if im["self_ty"].get("path") == "mem::heap::HeapMem":
            dp = im["items"][0]["path"]
    res.inst(sample={"obligation": "Drop for HeapMem releases the allocation", "function": dp})
    okd = False
    why = "dropping HeapMem does not release its block: the allocation leaks"
    size0 = Poly.atom(("init", (("P", 1), ("size",)), 0))
    if dp:
        for tt, I in ctx.arms(dp, entry_facts=[("ne0", stride0), ("ne0", size0)]) or []:
            ds = I.all_effects(("DEALLOC",))
            rets = I.all_effects(("RETURN",))
            good = []
            for d in ds:
                l = d["layout"]
                lsz = as_poly(l[1]) if isinstance(l, tuple) and l[:1] == ("layout",) else None
                lal = l[2] if isinstance(l, tuple) and l[:1] == ("layout",) else None
                if lsz == stride0 * size0 and any(isinstance(a_, tuple) and a_[0] == "lalign" for a_ in as_poly(lal).atoms()) and "mem" in repr(d["ptr"]):
                    good.append(d)
                else:
                    why = "the destructor deallocates with layout %s / pointer %s, expected the live block (element size x size, element align) of self.mem" % (l, d["ptr"])
            if good and rets and all(every_path_to(I, r.gid, lambda g: any(g == d.gid for d in good)) for r in rets) and len(good) == len(ds) \
                    and not I.all_effects(("ALLOC", "REALLOC", "ALLOC_OTHER")):
                okd = True
    if okd:
        res.ok()
    else:
        res.fail(dp or "mem::heap::HeapMem", "drop-releases", why)
    # Heap::build allocates nothing
    for im in fx.impls_of("mem::MemBuilder"):
        if im["self_ty"].get("path") == "mem::heap::Heap":
            bp = [it["path"] for it in im["items"] if it["name"] == "build"][0]
            for tt, I in ctx.arms(bp) or []:
                res.inst(sample={"obligation": "Heap::build allocates nothing", "function": bp})
                tr = ret_tree(I) or {}
                if I.all_effects(("ALLOC", "REALLOC")) or tr.get(("size",)) != Poly():
                    res.fail(bp, "build-allocates", "a fresh heap backend must own no allocation and report size 0")
                else:
                    res.ok()
    return res


def _not_after(I, a, b):
    """a is not followed by b"""
    return not _reach(I, a, b)


# ------------------------------------------------------------------------------------------------ R-ALIGN

def guaranteed_align(t, fx):
    k = t.get("k")
    if k in ("uint", "int") and t.get("name") in ("u8", "i8"):
        return 1
    if k == "bool":
        return 1
    if k == "array":
        return guaranteed_align(t["to"], fx)
    if k == "adt":
        if t["path"] in ("core::mem::MaybeUninit", "core::mem::ManuallyDrop", "core::cell::UnsafeCell"):
            args = [a for a in t.get("args", []) if a.get("k") not in ("region", "const")]
            return guaranteed_align(args[0], fx) if args else None
        a = fx.adts.get(t["path"])
        if a:
            ra = a["repr"].get("align")
            inner = [guaranteed_align(f["ty"], fx) for v in a["variants"] for f in v["fields"]]
            inner = [x for x in inner if x]
            m = max(inner) if inner else 1
            return max(ra or 1, m)
    return None


def r_align(ctx):
    res = RuleResult("R-ALIGN")
    fx = ctx.fx
    impls = [im for im in fx.impls_of("mem::Mem") if im["self_ty"].get("k") == "adt"]
    if len(impls) < (3 if "no-alloc" in ctx.config else 4):
        res.coverage_lost("mem::Mem", "expected the built-in backends, found %d Mem impls" % len(impls))
    builders = {}
    for im in fx.impls_of("mem::MemBuilder"):
        for it in im["items"]:
            if it["kind"].startswith("Type") or "ty" in it:
                if it["name"] == "Mem" and it.get("ty", {}).get("k") == "adt":
                    builders[it["ty"]["path"]] = im
    for im in impls:
        adt = im["self_ty"]["path"]
        items = {it["name"]: it["path"] for it in im["items"]}
        for m in ("as_ptr", "as_mut_ptr"):
            p = items.get(m)
            for tt, I in ctx.arms(p) or []:
                rets = I.all_effects(("RETURN",))
                v = rets[0]["value"] if rets else None
                res.inst(sample={"backend": adt, "method": m, "pointer": str(v)}, func=p)
                pp = ptr_parts(v)
                if pp and isinstance(pp[0], tuple) and pp[0][0] == "ADDR":
                    # dangling: address must be the element alignment
                    ats = [a for a in as_poly(pp[0][1]).atoms()]
                    if len(ats) == 1 and isinstance(ats[0], tuple) and ats[0][0] in ("lalign", "ALIGN", "ALIGNOF") and as_poly(pp[0][1]) == Poly.atom(ats[0]):
                        res.ok()
                    else:
                        res.fail(p, "dangling", "the placeholder pointer's address is %s, expected element_layout.align()" % pp[0][1], span=ctx.span_of(p))
                elif pp and isinstance(pp[0], tuple) and pp[0][0] == "FIELD":
                    fpath = pp[0][1]
                    fname = fpath[1][-1]
                    a = fx.adts.get(adt)
                    fty = [f["ty"] for vv in a["variants"] for f in vv["fields"] if f["name"] == fname]
                    ga = guaranteed_align(fty[0], fx) if fty else None
                    # does the builder bound the element alignment?
                    bound = _builder_align_bound(ctx, builders.get(adt))
                    if ga is not None and bound is not None and ga >= bound:
                        res.ok()
                    else:
                        res.fail(adt, "inline-storage-align:%s" % m,
                                 "storage pointer is the address of inline field `%s` whose type guarantees alignment %s, while build() admits element layouts of %s alignment: "
                                 "elements with a larger alignment are stored misaligned" % (fname, ga, "unbounded" if bound is None else bound), span=ctx.span_of(p))
                elif isinstance(v, tuple) and v and (v[0] == "init" or v[0] == "ref") or (pp and isinstance(pp[0], tuple) and pp[0][0] in ("PBASE",)):
                    # pointer held in a field: judged at its writers (allocator results with the element alignment, or dangling)
                    ok = _field_ptr_writers_aligned(ctx, adt, res)
                    if ok:
                        res.ok()
                    else:
                        res.fail(adt, "field-pointer:%s" % m, "the stored storage pointer is written from something other than an allocation with the element alignment or dangling()",
                                 span=ctx.span_of(p))
                else:
                    res.fail(p, "unknown-pointer", "cannot classify the storage pointer %s" % (v,), kind="coverage-lost")
    # pointer producers inside storage backends: only the allocator, dangling(layout), inline buffers and caller-supplied handles
    ALLOWED = ("alloc", "realloc", "alloc_zeroed", "new", "new_unchecked", "unwrap", "expect", "unwrap_or_else", "as_ptr", "as_mut_ptr", "cast", "dangling", "from",
               "as_ref", "as_mut", "add")
    work = []
    for f in fx.fn_list:
        in_backend = (f.get("impl_trait") or "").startswith("mem::Mem") or f["path"].startswith("mem::") or f["path"].startswith("<mem::")
        if in_backend:
            work.append(f)
    judged = {id(f) for f in work}
    while work:
        f = work.pop(0)
        for b in f["blocks"]:
            tm = b["term"]
            if tm["k"] != "call" or "indirect" in tm["callee"]:
                continue
            c = tm["callee"]
            dty = f["locals"][tm["dest"]["local"]] if not tm["dest"]["proj"] else None
            if dty is None:
                continue
            s = dty.get("s", "")
            is_ptr = dty.get("k") == "ptr" or s.startswith("core::ptr::NonNull<") or s.startswith("core::option::Option<core::ptr::NonNull<")
            if not is_ptr:
                continue
            lf = fx.fn(c["path"])
            if lf is not None and lf.get("blocks") and c["path"] != "mem::dangling":
                # a helper of this crate: it is judged by its own pointer producers (not by its name)
                res.inst(sample={"backend_fn": f["path"], "pointer_from_local_helper": c["path"]}, func=f["path"])
                res.ok()
                if id(lf) not in judged:
                    judged.add(id(lf))
                    work.append(lf)
                continue
            res.inst(sample={"backend_fn": f["path"], "pointer_from": c["path"]}, func=f["path"])
            if c["name"] in ALLOWED and not (c["path"] == "core::ptr::NonNull::<T>::dangling"):
                if c["name"] == "dangling" and c["path"] != "mem::dangling":
                    res.fail(f["path"], "pointer-source:" + c["name"], "storage pointer produced by %s, which is aligned for u8 only (use dangling(&element_layout))" % c["path"],
                             span="%s:%s" % (f["span"]["file"], tm.get("line")))
                else:
                    res.ok()
            else:
                res.fail(f["path"], "pointer-source:" + c["name"], "storage pointer produced by %s: not known to be aligned for the element type" % c["path"],
                         span="%s:%s" % (f["span"]["file"], tm.get("line")))
    # dangling() itself
    p = "mem::dangling"
    for tt, I in ctx.arms(p) or []:
        rets = I.all_effects(("RETURN",))
        v = rets[0]["value"] if rets else None
        res.inst(sample={"function": p, "returns": str(v)}, func=p)
        pp = ptr_parts(v)
        if pp and isinstance(pp[0], tuple) and pp[0][0] == "ADDR" and [a[0] for a in as_poly(pp[0][1]).atoms()] == ["lalign"]:
            res.ok()
        else:
            res.fail(p, "dangling", "dangling() must return a pointer whose address is layout.align(), got %s" % (v,), span=ctx.span_of(p))
    return res


def _builder_align_bound(ctx, im):
    """largest element alignment build() admits: a dominating assert on element_layout.align(), else None (unbounded)"""
    if im is None:
        return None
    for it in im["items"]:
        if it["name"] == "build":
            for tt, I in ctx.arms(it["path"]) or []:
                for r in I.all_effects(("RETURN",)):
                    for f in r["facts"]:
                        if f[0] == "ge0":
                            ats = [a for a in f[1].atoms() if isinstance(a, tuple) and a[0] in ("lalign",)]
                            if ats and f[1].m.get((ats[0],)) == -1:
                                c = f[1].m.get((), 0)
                                if c > 0 and len(f[1].m) == 2:
                                    return c
    return None


def _field_ptr_writers_aligned(ctx, adt, res):
    fx = ctx.fx
    ok = True
    found = 0
    for f in fx.fn_list:
        st = f.get("impl_self_ty", {})
        if st.get("path") != adt and not (f.get("sig", {}).get("output", {}).get("path") == adt):
            continue
        for tt, I in ctx.arms(f["path"], max_depth=2) or []:
            vals = []
            for e in I.all_effects(("STORE",)):
                if e["path"][1][-1:] == ("mem",) and e["path"][0] == ("P", 1):
                    vals.append(e["value"])
            tr = ret_tree(I) or {}
            if f.get("sig", {}).get("output", {}).get("path") == adt and ("mem",) in tr:
                vals.append(tr[("mem",)])
            for v in vals:
                found += 1
                pp = ptr_parts(v)
                if pp and isinstance(pp[0], tuple) and pp[0][0] in ("ADDR",):
                    continue
                if pp and isinstance(pp[0], tuple) and pp[0][0] == "ALLOC":
                    # the allocation's layout alignment is checked by R-HEAP (alloc-layout)
                    continue
                if isinstance(v, tuple) and v and v[0] in ("phi", "unwrap"):
                    continue      # join of the above (alloc / realloc / dangling)
                if isinstance(v, tuple) and v and v[0] == "call" and fx.fn(v[1]) is not None:
                    continue      # result of a helper of this crate beyond the inlining depth: judged by its own pointer producers (pointer-source clause)
                if v == ("param", 1) or (isinstance(v, tuple) and v[0] in ("param", "alias")):
                    continue      # from_raw_parts: caller-supplied handle (unsafe contract)
                ok = False
    return ok and found > 0


# ------------------------------------------------------------------------------------------------ R-ITER

def r_iter(ctx):
    res = RuleResult("R-ITER")
    fx = ctx.fx
    I0 = "<iter::Iter as core::iter::"
    idx0 = Poly.atom(("init", (("P", 1), ("index",)), 0))
    end0 = Poly.atom(("init", (("P", 1), ("end",)), 0))

    def yielded_slot(tr):
        for k, v in (tr or {}).items():
            if isinstance(v, tuple) and v and v[0] in ("ptr",):
                return slot_of(v)
            if isinstance(v, tuple) and v and v[0] == "some":
                pass
        return None

    for name, trait in (("next", "Iterator"), ("next_back", "DoubleEndedIterator")):
        p = I0 + trait + ">::" + name
        for tt, I in ctx.arms(p) or []:
            an = arm_name(tt)
            res.inst(sample={"function": p, "arm": an}, func=p)
            stores = [e for e in I.all_effects(("STORE",)) if e["path"][0] == ("P", 1)]
            rets = I.all_effects(("RETURN",))
            news = [e for e in I.all_effects(("ENTER",)) if e["callee"].startswith("element::ElementPointer") and e["callee"].endswith("::new")]
            ok = True
            if len(stores) != 1:
                res.fail(p, "cursor-store/%s" % an, "expected exactly one cursor update, found %d" % len(stores), span=ctx.span_of(p))
                continue
            s = stores[0]
            fld = "index" if name == "next" else "end"
            if s["path"][1] != (fld,):
                res.fail(p, "cursor-field/%s" % an, "%s updates `%s`, expected `%s`" % (name, ".".join(s["path"][1]), fld), span=span_of_effect(s))
                ok = False
            want = idx0 + Poly.const(1) if name == "next" else end0 - Poly.const(1)
            if as_poly(s["value"]) != want:
                res.fail(p, "cursor-step/%s" % an, "cursor becomes %s, expected %s" % (s["value"], want), span=span_of_effect(s))
                ok = False
            # guarded by index != end, nothing stored on the None path (fused)
            if not implies(s["facts"], ("ne0", _canon(idx0 - end0))):
                res.fail(p, "guard/%s" % an, "the cursor moves without a dominating index != end test (not fused / overruns)", span=span_of_effect(s))
                ok = False
            # yielded slot
            if not news:
                res.fail(p, "yield/%s" % an, "no element pointer is constructed", span=ctx.span_of(p))
                continue
            sl = slot_of(news[0]["args"][1]) if len(news[0]["args"]) > 1 else None
            wslot = idx0 if name == "next" else end0 - Poly.const(1)
            if not sl or sl[1] is None or sl[1] != wslot:
                res.fail(p, "slot/%s" % an, "%s yields slot %s, expected %s" % (name, sl[1] if sl else None, wslot), span=span_of_effect(news[0]))
                ok = False
            if not implies(news[0]["facts"], ("ne0", _canon(idx0 - end0))):
                res.fail(p, "yield-guard/%s" % an, "an element is yielded without index != end", span=span_of_effect(news[0]))
                ok = False
            if ok:
                res.ok()
    # every local exact-size iterator states its size: an `Iterator` impl without `size_hint` reports (0, None) while `len()` says otherwise
    # (`size_hint() == (len(), Some(len()))` is the ExactSizeIterator contract; std adaptors rely on it)
    for im in fx.impls_of("core::iter::ExactSizeIterator"):
        stp = im["self_ty"].get("path")
        if im["self_ty"].get("k") != "adt" or stp not in fx.adts:
            continue
        its = [i2 for i2 in fx.impls_of("core::iter::Iterator") if i2["self_ty"].get("path") == stp]
        res.inst(sample={"exact_size_iterator": stp, "iterator_impl_items": [it["name"] for i2 in its for it in i2["items"]]})
        if its and not any(it["name"] == "size_hint" for i2 in its for it in i2["items"]):
            res.fail(stp, "size_hint-missing", "`%s` implements ExactSizeIterator but its Iterator impl does not define size_hint: the default (0, None) contradicts len()" % stp,
                     span="%s:%s" % (its[0]["span"]["file"], its[0]["span"]["line"]))
        else:
            res.ok()
    # any further method of the cursor iterator that moves a cursor is outside the checked discipline: fail closed
    for im in fx.impls:
        if im["self_ty"].get("path") != "iter::Iter" or (im.get("trait") or "") not in ("core::iter::Iterator", "core::iter::DoubleEndedIterator", "core::iter::ExactSizeIterator"):
            continue
        for it in im["items"]:
            if not it["kind"].startswith("Fn") or it["name"] in ("next", "next_back", "size_hint", "len"):
                continue
            p2 = it["path"]
            for tt, I in ctx.arms(p2) or []:
                stores = [e for e in I.all_effects(("STORE",)) if e["path"][0] == ("P", 1)]
                res.inst(sample={"extra_iterator_method": p2, "cursor_stores": len(stores)}, func=p2)
                if stores:
                    res.fail(p2, "unclassified-cursor-method", "`%s` overrides an iterator method and moves a cursor (%s := %s) outside the checked next/next_back discipline: "
                             "index <= end, fusedness and exact size are not shown to be preserved" % (it["name"], ".".join(stores[0]["path"][1]), stores[0]["value"]),
                             span=ctx.span_of(p2), kind="coverage-lost")
                else:
                    res.ok()
    # size_hint / len
    p = I0 + "Iterator>::size_hint"
    for tt, I in ctx.arms(p) or []:
        rets = I.all_effects(("RETURN",))
        v = rets[0]["value"] if rets else None
        tr = ret_tree(I) or {}
        res.inst(sample={"function": p, "returns": str(v)}, func=p)
        lo = tr.get(("0",))
        hi = tr.get(("1",))
        if isinstance(v, tuple) and v and v[0] == "pair":
            lo, hi = v[1], v[2]
        if lo == end0 - idx0 and hi == ("some", end0 - idx0):
            res.ok()
        else:
            res.fail(p, "size_hint", "size_hint returns (%s, %s), expected (end-index, Some(end-index))" % (lo, hi), span=ctx.span_of(p))
    p = I0 + "ExactSizeIterator>::len"
    for tt, I in ctx.arms(p) or []:
        rets = I.all_effects(("RETURN",))
        v = rets[0]["value"] if rets else None
        res.inst(sample={"function": p, "returns": str(v)}, func=p)
        if v == end0 - idx0:
            res.ok()
        else:
            res.fail(p, "len", "len returns %s, expected end-index" % (v,), span=ctx.span_of(p))
    # Clone copies the cursors field to field (independent iterators)
    p = "<iter::Iter as core::clone::Clone>::clone"
    for tt, I in ctx.arms(p) or []:
        tr = ret_tree(I) or {}
        res.inst(sample={"function": p, "tree": {".".join(k): str(v) for k, v in tr.items()}}, func=p)
        ok = tr.get(("index",)) == idx0 and tr.get(("end",)) == end0 and {s[1] for s in source_paths(tr.get(("any_vec_ptr",)))} == {("any_vec_ptr",)}
        if ok:
            res.ok()
        else:
            res.fail(p, "clone", "Iter::clone must copy any_vec_ptr, index and end field-wise", span=ctx.span_of(p))
    # every local iterator wrapper forwards each method to the same-named method of the inner iterator
    nwrap = 0
    for im in fx.impls:
        tr = im.get("trait") or ""
        if tr not in ("core::iter::Iterator", "core::iter::DoubleEndedIterator", "core::iter::ExactSizeIterator"):
            continue
        sp = im["self_ty"].get("path")
        if im["self_ty"].get("k") != "adt" or sp == "iter::Iter" or sp not in fx.adts:
            continue
        for it in im["items"]:
            if not it["kind"].startswith("Fn"):
                continue
            p = it["path"]
            nwrap += 1
            for tt, I in ctx.arms(p) or []:
                us = [e for e in I.all_effects(("USER",)) if e["what"].startswith("iter-")]
                res.inst(sample={"wrapper": p, "forwards_to": [u["forwards"] for u in us]}, func=p)
                if len(us) == 1 and us[0]["forwards"] == it["name"]:
                    res.ok()
                else:
                    res.fail(p, "forward", "%s must forward to the inner iterator's `%s`, forwards to %s" % (it["name"], it["name"], [u["forwards"] for u in us]), span=ctx.span_of(p))
    if nwrap < 4:
        res.coverage_lost("ops::iter::Iter", "expected >= 4 forwarding iterator methods, found %d" % nwrap)
    # ElementIterator = DoubleEnded + ExactSize + Fused, implemented by the cursor iterator and the wrapper
    tr = fx.traits.get("iter::ElementIterator")
    res.inst(sample={"trait": "iter::ElementIterator", "super": tr and tr["super"]})
    need = ("DoubleEndedIterator", "ExactSizeIterator", "FusedIterator")
    if tr and all(any(n in s for s in tr["super"]) for n in need):
        res.ok()
    else:
        res.fail("iter::ElementIterator", "supertraits", "ElementIterator must require DoubleEndedIterator + ExactSizeIterator + FusedIterator")
    for adt in ("iter::Iter", "ops::iter::Iter"):
        have = {im["trait"].split("::")[-1] for im in fx.impls if im["self_ty"].get("path") == adt and im.get("trait", "") and im["trait"].startswith("core::iter::")}
        res.inst(sample={"type": adt, "iterator_traits": sorted(have)})
        if all(n in have for n in need + ("Iterator",)):
            res.ok()
        else:
            res.fail(adt, "iterator-traits", "%s implements %s, expected Iterator + %s" % (adt, sorted(have), ", ".join(need)))
    return res


def _canon(p):
    from ..interp import canon_sign
    return canon_sign(p)


# ------------------------------------------------------------------------------------------------ R-SIG

EXCLUSIVE_TYPES = ("element::ElementMut", "ops::temp::TempValue", "ops::iter::Iter", "any_vec::AnyVecMut")


def _is_exclusive_out(t):
    k = t.get("k")
    if k == "ref":
        return t.get("mut", False) or _is_exclusive_out(t["to"])
    if k == "adt":
        if t["path"] in EXCLUSIVE_TYPES:
            return True
        if t["path"] == "iter::Iter":
            return any("ElementMutIterItem" in a.get("s", "") for a in t.get("args", []))
        if t["path"] in ("core::option::Option", "core::slice::IterMut"):
            return t["path"] == "core::slice::IterMut" or any(_is_exclusive_out(a) for a in t.get("args", []) if a.get("k") != "region")
    if k == "slice":
        return False
    return False


def _has_region(t):
    s = t.get("s", "")
    return "'" in s or t.get("k") == "ref" or "&" in s


def tcx_normalize(ctx, f, out):
    """associated-type outputs (`<&'a AnyVec as IntoIterator>::IntoIter`) resolved through the impl's items"""
    if out.get("k") != "alias":
        return out
    name = out["path"].rsplit("::", 1)[-1]
    for im in ctx.fx.impls:
        if any(it["path"] == f["path"] for it in im["items"]):
            for it in im["items"]:
                if it["name"] == name and "ty" in it:
                    return it["ty"]
    return out


def r_sig(ctx):
    res = RuleResult("R-SIG")
    fx = ctx.fx
    exported_traits = {a["path"] for a in fx.api if a["kind"] == "Trait" and a["exported"]}
    n = 0
    for f in fx.fn_list:
        if f.get("kind") != "AssocFn" or not ctx.is_public(f) or f.get("self_kind") not in ("ref", "mut"):
            continue
        sig = f["sig"]
        out = sig["output"]
        free = sig.get("output_free_regions", [])
        bound = sig.get("output_bound_regions", [])
        if not free and not bound:
            continue
        if f.get("impl_trait") and f["impl_trait"].startswith("core::") and f["impl_trait"] not in ("core::iter::IntoIterator",):
            continue
        if f.get("impl_trait") and not f["impl_trait"].startswith("core::") and f["impl_trait"] not in exported_traits:
            continue      # crate-private trait: not callable by users
        if f.get("impl_self_ty", {}).get("s") == sig["inputs"][0].get("s"):
            # `self` by value whose type happens to be a reference (IntoIterator for &'a AnyVec): the output is tied to Self;
            # but an exclusive handle must not come out of a shared reference
            n += 1
            res.inst(sample={"method": f["path"], "receiver": "self: " + sig["inputs"][0].get("s", ""), "output": out["s"]}, func=f["path"])
            out_n = tcx_normalize(ctx, f, out)
            if not sig["inputs"][0].get("mut") and _is_exclusive_out(out_n):
                res.fail(f["path"], "shared-receiver-exclusive-handle", "`self: %s` (a shared reference) yields an exclusive handle (%s)" % (sig["inputs"][0]["s"], out_n["s"]),
                         span=ctx.span_of(f["path"]))
            else:
                res.ok()
            continue
        n += 1
        p = f["path"]
        res.inst(sample={"method": p, "receiver": f["self_kind"], "output": out["s"], "impl_level_regions": free}, func=p)
        ok = True
        if _is_exclusive_out(out) and f["self_kind"] != "mut":
            res.fail(p, "shared-receiver-exclusive-handle", "returns an exclusive handle (%s) from `&self`: two such handles can coexist" % out["s"], span=ctx.span_of(p))
            ok = False
        if free and not f.get("unsafe"):
            # impl-level lifetime in the output: the result is not tied to the borrow of the receiver
            recv_free = sig.get("input_regions", [{}])[0].get("free", []) if sig.get("input_regions") else []
            tied = any(r in recv_free for r in free) and False
            st = f.get("impl_self_ty", {})
            if not tied:
                res.fail(p, "detached-lifetime", "the returned %s carries the impl-level lifetime %s instead of the borrow of `%sself`: it outlives / coexists with "
                         "later exclusive uses of the same view" % (out["s"], ",".join(free), "&mut " if f["self_kind"] == "mut" else "&"), span=ctx.span_of(p))
                ok = False
        if ok:
            res.ok()
    # (2b) constructors of borrowing values: every impl-level lifetime in the output must occur in some input type, otherwise the caller may pick it
    # freely and the result is not tied to anything it was built from (`fn new(value: &T) -> LazyClone<'a, T>`)
    for f in fx.fn_list:
        if f.get("kind") not in ("AssocFn", "Fn") or not ctx.is_public(f) or not f.get("exported") or f.get("unsafe") or fx.fn(f["path"]) is not f:
            continue      # only functions a user can name (exported through a public path); crate-internal constructors get their lifetime from the public method
        sig = f["sig"]
        free = sig.get("output_free_regions", [])
        if not free or f.get("self_kind") in ("ref", "mut"):
            continue
        in_free = set()
        for r in sig.get("input_regions", []):
            in_free |= set(r.get("free", []))
        res.inst(sample={"function": f["path"], "output": sig["output"]["s"], "impl_level_regions": free, "input_regions": sorted(in_free)}, func=f["path"])
        loose = [r for r in free if r not in in_free and "static" not in r]
        if loose:
            res.fail(f["path"], "unconstrained-output-lifetime", "the returned %s carries lifetime %s, which occurs in no argument type: the caller chooses it, so the "
                     "result does not keep its source borrowed" % (sig["output"]["s"], ",".join(x.split("/")[0] for x in loose)), span=ctx.span_of(f["path"]))
        else:
            res.ok()
    # (3) iterators over exclusive handles are not Clone
    for im in fx.impls_of("core::clone::Clone"):
        if im["self_ty"].get("path") == "iter::Iter":
            # Clone for Iter<.., IterItem: Clone>: the marker for exclusive items must not be Clone
            for im2 in fx.impls_of("core::clone::Clone"):
                if im2["self_ty"].get("path") == "iter::ElementMutIterItem":
                    res.inst(sample={"impl": "Clone for IterMut (via ElementMutIterItem: Clone)"})
                    res.fail("iter::Iter", "exclusive-iterator-clone", "IterMut is Clone (ElementMutIterItem: Clone): two iterators yield ElementMut to the same elements",
                             span="%s:%s" % (im2["span"]["file"], im2["span"]["line"]))
    for adt in ("element::ElementMut", "ops::temp::TempValue", "element::ElementPointer", "any_vec::AnyVecMut", "any_vec_typed::AnyVecTyped"):
        res.inst(sample={"type": adt, "check": "exclusive handle is not Clone"})
        if any(im["self_ty"].get("path") == adt for im in fx.impls_of("core::clone::Clone")) or any(im["self_ty"].get("path") == adt for im in fx.impls_of("core::marker::Copy")):
            res.fail(adt, "exclusive-handle-clone", "%s implements Clone/Copy" % adt)
        else:
            res.ok()
    if n < 30:
        res.coverage_lost("<crate>", "expected >= 30 public methods with borrowed outputs, found %d" % n)
    return res


# ------------------------------------------------------------------------------------------------ R-CONFIG (needs two configurations)

def _strip(x):
    """structural form of a body: drop line numbers / expansion flags"""
    if isinstance(x, dict):
        return {k: _strip(v) for k, v in x.items() if k not in ("line", "expn", "span", "end_line")}
    if isinstance(x, list):
        return [_strip(v) for v in x]
    return x


def body_hash(f):
    s = json.dumps(_strip({"locals": [t["s"] for t in f["locals"]], "blocks": f["blocks"]}), sort_keys=True)
    return hashlib.sha256(s.encode()).hexdigest()[:16]


def r_config(ctxs):
    res = RuleResult("R-CONFIG")
    d = ctxs.get("default")
    n = ctxs.get("no-alloc")
    if d is None or n is None:
        res.coverage_lost("<crate>", "R-CONFIG needs the default and the no-alloc fact files")
        return res
    # (a) the no-alloc build type-checks (fact file exists) and links only core
    ex = set(n.fx.crate["extern_crates"])
    res.inst(sample={"no_alloc_extern_crates": sorted(ex), "no_std": n.fx.crate["no_std"]})
    if ex - {"core", "compiler_builtins", "rustc_std_workspace_core"}:
        res.fail("<crate>", "extern-crates", "built without default features the crate still links %s" % sorted(ex - {"core", "compiler_builtins"}))
    else:
        res.ok()
    res.inst(sample={"attribute": "#![no_std]", "default": d.fx.crate["no_std"], "no_alloc": n.fx.crate["no_std"]})
    if not (d.fx.crate["no_std"] and n.fx.crate["no_std"]) or "std" in ex or "std" in d.fx.crate["extern_crates"]:
        res.fail("<crate>", "no_std", "the crate is not #![no_std] in both configurations")
    else:
        res.ok()
    res.inst(sample={"feature_alloc_in_no_alloc_cfg": "feature=alloc" in n.fx.crate["cfg"]})
    if "feature=alloc" in n.fx.crate["cfg"] or "feature=alloc" not in d.fx.crate["cfg"]:
        res.fail("<crate>", "feature-gate", "the alloc feature is not what distinguishes the two configurations")
    else:
        res.ok()
    # (b) API surface: no-alloc = default - mem::heap
    da = {(a["path"], a["kind"]) for a in d.fx.api}
    na = {(a["path"], a["kind"]) for a in n.fx.api}
    only_d = sorted(da - na)
    only_n = sorted(na - da)
    res.inst(sample={"api_items_default": len(da), "api_items_no_alloc": len(na), "only_in_default": [p for p, k in only_d][:8]})
    badd = [p for p, k in only_d if not (p.startswith("mem::heap") or p.startswith("<mem::heap"))]
    heap_in_n = [p for p, k in na if p.startswith("mem::heap") or p.startswith("<mem::heap")]
    if badd:
        res.fail(badd[0], "api-missing-without-alloc", "public item %s exists only with the alloc feature although it is not part of the heap backend" % badd[0])
    elif only_n:
        res.fail(only_n[0][0], "api-only-without-alloc", "public item %s exists only without the alloc feature" % only_n[0][0])
    elif heap_in_n:
        res.fail(heap_in_n[0], "heap-without-alloc", "the heap backend is offered without the alloc feature")
    elif not [p for p, k in only_d if p.startswith("mem::heap")]:
        res.fail("mem::heap", "heap-missing", "the default configuration offers no heap backend (anchor lost)", kind="coverage-lost")
    else:
        res.ok()
    # impl surface (trait impls of public types)
    di = {(im.get("trait_ref") or "", im["self_ty"]["s"]) for im in d.fx.impls}
    ni = {(im.get("trait_ref") or "", im["self_ty"]["s"]) for im in n.fx.impls}
    diff = sorted(x for x in (di ^ ni) if "mem::heap" not in x[0] and "mem::heap" not in x[1])
    res.inst(sample={"impls_default": len(di), "impls_no_alloc": len(ni), "unexplained_difference": diff[:4]})
    if diff:
        res.fail(diff[0][1], "impl-surface", "impl `%s for %s` exists in only one configuration" % diff[0])
    else:
        res.ok()
    # (c) every body present in both configurations is the same code
    dh = {f["path"]: body_hash(f) for f in d.fx.fn_list}
    nh = {f["path"]: body_hash(f) for f in n.fx.fn_list}
    common = sorted(set(dh) & set(nh))
    nbad = 0
    for p in common:
        res.inst(sample={"body": p, "hash_default": dh[p], "hash_no_alloc": nh[p]} if p.endswith("::push") else None)
        if dh[p] == nh[p]:
            res.ok()
        else:
            nbad += 1
            if nbad <= 5:
                res.fail(p, "body-differs", "the body of %s differs between the default and the no-alloc build: behaviour depends on the alloc feature" % p,
                         span=d.span_of(p))
    missing = sorted(p for p in set(dh) - set(nh) if not (p.startswith("mem::heap") or p.startswith("<mem::heap")))
    res.inst(sample={"bodies_common": len(common), "bodies_only_default": len(set(dh) - set(nh)), "non_heap_missing": missing[:4]})
    if missing:
        res.fail(missing[0], "body-missing-without-alloc", "%s is compiled only with the alloc feature" % missing[0], span=d.span_of(missing[0]))
    else:
        res.ok()
    extra = sorted(set(nh) - set(dh))
    if extra:
        res.fail(extra[0], "body-only-without-alloc", "%s is compiled only without the alloc feature" % extra[0])
    # the default backend alias
    da_ = d.fx.aliases.get("mem::Default", {}).get("ty", {}).get("s")
    na_ = n.fx.aliases.get("mem::Default", {}).get("ty", {}).get("s")
    res.inst(sample={"mem::Default (default)": da_, "mem::Default (no-alloc)": na_})
    if da_ and "heap" in da_ and na_ and "heap" not in na_:
        res.ok()
    else:
        res.fail("mem::Default", "default-backend", "default backend alias is %s / %s" % (da_, na_))
    return res


# ------------------------------------------------------------------------------------------------ R-STACKCAP

def r_stackcap(ctx):
    """capacities of the fixed backends: Stack<SIZE> = SIZE / element size (usize::MAX for zero-sized), StackN<N,SIZE> = N with N*size <= SIZE checked at build"""
    res = RuleResult("R-STACKCAP")
    fx = ctx.fx
    builds = {}
    for im in fx.impls_of("mem::MemBuilder"):
        st = im["self_ty"].get("path")
        for it in im["items"]:
            if it["name"] == "build":
                builds[st] = it["path"]
    sizes = {}
    for im in fx.impls_of("mem::Mem"):
        st = im["self_ty"].get("path")
        for it in im["items"]:
            if it["name"] == "size":
                sizes[st] = it["path"]
    # Stack
    bp = builds.get("mem::stack::Stack")
    if not bp:
        res.coverage_lost("mem::stack::Stack", "MemBuilder::build not found")
    # decided per case of the element size: one interpretation under `element size != 0`, one under `element size == 0`
    # (branches are pruned by the entry fact, so the recorded capacity is a single term in each case)
    esz = Poly.atom(("lsize", ("init", (("A", 2), ()), 0)))
    SIZE = Poly.atom(("cparam", "SIZE"))
    for case, ef, want, what in (("nonzero", [("ne0", esz)], Poly.atom(("div", SIZE, esz)), "SIZE / element_layout.size()"),
                                 ("zero", [("eq0", esz)], Poly.const(2 ** 64 - 1), "usize::MAX")):
        for tt, I in ctx.arms(bp, entry_facts=ef) or [] if bp else []:
            res.inst(sample={"function": bp, "case": "element size " + case, "check": "capacity = " + what}, func=bp)
            ok = True
            rets = I.all_effects(("RETURN",))
            if not rets:
                res.fail(bp, "capacity:" + case, "build() never returns when the element size is %s" % case, span=ctx.span_of(bp))
                continue
            tr = ret_tree(I) or {}
            got = tr.get(("size",))
            if not isinstance(got, Poly) or got != want:
                key = "capacity" if case == "nonzero" else "zero-size-capacity"
                res.fail(bp, key, "with element size %s the recorded capacity is %s, expected %s" % (case, got, what), span=ctx.span_of(bp))
                ok = False
            if not (isinstance(tr.get(("element_layout",)), tuple) and tr[("element_layout",)][:1] == ("alias",) and tr[("element_layout",)][1][0] == ("A", 2)):
                res.fail(bp, "layout", "the storage does not record the requested element layout", span=ctx.span_of(bp))
                ok = False
            if ok:
                res.ok()
    # the storage pointer of the inline backends is the start of the inline buffer: the capacities above are computed for the whole buffer, so any
    # offset into it (an alignment fix-up, a header) makes the last elements lie beyond the buffer
    for im in fx.impls_of("mem::Mem"):
        adt = im["self_ty"].get("path")
        if adt not in ("mem::stack::StackMem", "mem::stack_n::StackNMem"):
            continue
        for it in im["items"]:
            if it["name"] not in ("as_ptr", "as_mut_ptr"):
                continue
            for tt, I in ctx.arms(it["path"]) or []:
                rets = I.all_effects(("RETURN",))
                v = rets[0]["value"] if rets else None
                pp = ptr_parts(v)
                res.inst(sample={"backend": adt, "method": it["name"], "pointer": str(v)}, func=it["path"])
                if pp and isinstance(pp[0], tuple) and pp[0][0] == "FIELD" and not pp[1].m:
                    res.ok()
                else:
                    res.fail(it["path"], "storage-offset", "the storage pointer of an inline backend is %s, expected the start of the inline buffer (offset 0): "
                             "the capacity is computed for the whole buffer, elements at the end would lie outside it" % (v,), span=ctx.span_of(it["path"]))
    sp = sizes.get("mem::stack::StackMem")
    for tt, I in ctx.arms(sp) or [] if sp else []:
        rets = I.all_effects(("RETURN",))
        v = rets[0]["value"] if rets else None
        res.inst(sample={"function": sp, "returns": str(v)}, func=sp)
        if isinstance(v, Poly) and [a[0] for a in v.atoms()] == ["init"] and list(v.atoms())[0][1][1] == ("size",):
            res.ok()
        else:
            res.fail(sp, "size", "StackMem::size must report the capacity computed at build, returns %s" % (v,), span=ctx.span_of(sp))
    # StackN
    sp = sizes.get("mem::stack_n::StackNMem")
    for tt, I in ctx.arms(sp) or [] if sp else []:
        rets = I.all_effects(("RETURN",))
        v = rets[0]["value"] if rets else None
        res.inst(sample={"function": sp, "returns": str(v)}, func=sp)
        if v == Poly.atom(("cparam", "N")):
            res.ok()
        else:
            res.fail(sp, "size", "StackNMem::size must be N, returns %s" % (v,), span=ctx.span_of(sp))
    bp = builds.get("mem::stack_n::StackN")
    if not bp:
        res.coverage_lost("mem::stack_n::StackN", "MemBuilder::build not found")
    for tt, I in ctx.arms(bp) or [] if bp else []:
        res.inst(sample={"function": bp, "check": "construction panics unless N x element size <= SIZE"}, func=bp)
        rets = I.all_effects(("RETURN",))
        ok = False
        N, SZ = Poly.atom(("cparam", "N")), Poly.atom(("cparam", "SIZE"))
        for r in rets:
            for f in r["facts"]:
                if f[0] == "ge0":
                    p = f[1]
                    ls = [a for a in p.atoms() if isinstance(a, tuple) and a[0] == "lsize"]
                    if ls and p == SZ - N * Poly.atom(ls[0]):
                        ok = True
        if ok and rets:
            res.ok()
        else:
            res.fail(bp, "fits-check", "StackN::build does not establish N x element size <= SIZE before returning", span=ctx.span_of(bp))
    return res


# ------------------------------------------------------------------------------------------------ R-NOLEAK

def storage_owners(ctx):
    """local ADTs whose destructor releases storage (and, for the vector, its elements): a Drop impl that reaches the allocator, a field of an
    abstract backend type (`<M as MemBuilder>::Mem`), or a field of such an owner by value"""
    fx = ctx.fx
    owners = set()
    for im in fx.impls_of("core::ops::Drop"):
        st = im["self_ty"]
        if st.get("k") != "adt" or st["path"] not in fx.adts:
            continue
        for it in im["items"]:
            for tt, I in ctx.arms(it["path"]) or []:
                if I.all_effects(("DEALLOC", "REALLOC")):
                    owners.add(st["path"])

    def owns(t, depth=0):
        if depth > 6:
            return False
        k = t.get("k")
        if k == "alias" and t.get("path", "").endswith("MemBuilder::Mem"):
            return True
        if k == "adt":
            if t["path"] in owners:
                return True
            if t["path"] in ("core::mem::ManuallyDrop", "core::mem::MaybeUninit"):
                return False
        if k in ("tuple",):
            return any(owns(e, depth + 1) for e in t.get("elems", []))
        if k == "array":
            return owns(t["to"], depth + 1)
        return False
    changed = True
    while changed:
        changed = False
        for path, a in fx.adts.items():
            if path in owners:
                continue
            if any(owns(f["ty"]) for v in a["variants"] for f in v["fields"]):
                owners.add(path)
                changed = True
    return owners, owns


def r_noleak(ctx):
    """drop suppression of storage owners: ManuallyDrop::new / mem::forget applied to a value that owns storage is allowed only where the storage is handed
    to the caller (the raw-parts decomposition); no owner is stored inside ManuallyDrop / MaybeUninit"""
    res = RuleResult("R-NOLEAK")
    fx = ctx.fx
    owners, owns = storage_owners(ctx)
    res.inst(sample={"storage_owners": sorted(owners)})
    if not {"any_vec_raw::AnyVecRaw", "any_vec::AnyVec"} <= owners:
        res.coverage_lost("<crate>", "the vector types are not recognised as storage owners (found %s)" % sorted(owners))
    else:
        res.ok()

    def hands_out_storage(f):
        """raw-parts decomposition: an item of an impl of mem::MemRawParts, or a function returning a struct that carries a MemRawParts::Handle"""
        if (f.get("impl_trait") or "").startswith("mem::MemRawParts") or (f.get("trait_item_of") or "").startswith("mem::MemRawParts"):
            return True

        def mentions_handle(t, depth=0):
            if depth > 5:
                return False
            if t.get("k") == "alias" and t.get("path", "").endswith("MemRawParts::Handle"):
                return True
            if t.get("k") == "adt":
                a = fx.adts.get(t["path"])
                if a and any(mentions_handle(fl["ty"], depth + 1) for v in a["variants"] for fl in v["fields"]):
                    return True
                return any(mentions_handle(x, depth + 1) for x in t.get("args", []) if isinstance(x, dict))
            if t.get("k") == "tuple":
                return any(mentions_handle(e, depth + 1) for e in t.get("elems", []))
            return False
        return mentions_handle(f.get("sig", {}).get("output", {}))
    SUPPRESS = {"core::mem::ManuallyDrop::<T>::new": "ManuallyDrop::new", "core::mem::forget": "mem::forget", "core::mem::MaybeUninit::<T>::new": "MaybeUninit::new"}
    for f in fx.fn_list:
        if fx.fn(f["path"]) is not f:
            continue
        for b in f["blocks"]:
            tm = b["term"]
            if tm["k"] != "call" or "indirect" in tm["callee"]:
                continue
            c = tm["callee"]
            how = SUPPRESS.get(c["path"])
            if not how:
                continue
            ga = [a for a in c.get("generic_args", []) if a.get("k") not in ("region", "const")]
            if not ga or not owns(ga[0]):
                continue
            res.inst(sample={"function": f["path"], "suppresses_drop_of": ga[0].get("s"), "through": how}, func=f["path"])
            if hands_out_storage(f):
                res.ok()
            else:
                res.fail(f["path"], "suppressed-drop:" + (ga[0].get("path") or ga[0].get("s", "?")).split("::")[-1],
                         "%s of a value of type %s, which owns storage (and elements): if this function unwinds or the value is not unwrapped on some path, the storage "
                         "is never released; only the raw-parts decomposition may take a vector apart" % (how, ga[0].get("s")),
                         span="%s:%s" % (f["span"]["file"], tm.get("line")))
    # type-level: an owner kept inside ManuallyDrop / MaybeUninit never runs its destructor
    for path, a in sorted(fx.adts.items()):
        for v in a["variants"]:
            for fl in v["fields"]:
                t = fl["ty"]
                if t.get("k") == "adt" and t["path"] in ("core::mem::ManuallyDrop", "core::mem::MaybeUninit"):
                    inner = [x for x in t.get("args", []) if isinstance(x, dict) and x.get("k") not in ("region", "const")]
                    if inner and owns(inner[0]):
                        res.inst(sample={"type": path, "field": fl["name"], "holds": t.get("s")})
                        res.fail(path, "field-suppresses-drop:" + fl["name"], "field `%s` keeps a storage owner (%s) inside %s: its destructor never runs"
                                 % (fl["name"], inner[0].get("s"), t["path"].split("::")[-1]))
    return res


# ------------------------------------------------------------------------------------------------ R-HANDLELIFE

def r_handlelife(ctx):
    """An element handle that destroys its element IN PLACE (through the slot address it stores) must not be able to outlive a handle whose destructor
    RELOCATES slots of the same vector: after the relocation the address names another element (destroyed twice) and the original is overwritten (never
    destroyed). The items of an `Iterator` can never borrow from the iterator itself, so a public operation whose result is an iterator with a relocating
    destructor (its own Drop impl or that of a field / type argument) and whose Item is such an in-place owner hands out exactly that combination."""
    res = RuleResult("R-HANDLELIFE")
    fx = ctx.fx
    relocating, inplace = {}, {}
    for im in fx.impls_of("core::ops::Drop"):
        st = im["self_ty"]
        if st.get("k") != "adt" or st["path"] not in fx.adts:
            continue
        for it in im["items"]:
            for tt, I in ctx.arms(it["path"]) or []:
                cp = [e for e in I.all_effects(("COPY",))]
                if cp:
                    relocating[st["path"]] = (it["path"], cp[0])
                ds = [e for e in I.all_effects(("DESTROY",))]
                if ds:
                    inplace[st["path"]] = (it["path"], ds[0])

    def mentions(t, depth=0, seen=None):
        """a relocating ADT inside the type: itself, a type argument, or a field (by value)"""
        seen = seen if seen is not None else set()
        if depth > 6:
            return None
        k = t.get("k")
        if k == "adt":
            if t["path"] in relocating:
                return t["path"]
            for a in t.get("args", []):
                if a.get("k") not in (None, "region"):
                    r = mentions(a, depth + 1, seen)
                    if r:
                        return r
            a = fx.adts.get(t["path"])
            if a and t["path"] not in seen:
                seen.add(t["path"])
                for v in a["variants"]:
                    for f in v["fields"]:
                        r = mentions(f["ty"], depth + 1, seen)
                        if r:
                            return r
        if k == "tuple":
            for e in t.get("elems", []):
                r = mentions(e, depth + 1, seen)
                if r:
                    return r
        return None

    n = 0
    for f in fx.fn_list:
        item = f.get("output_iter_item")
        if item is None or not ctx.is_public(f) or fx.fn(f["path"]) is not f:
            continue
        n += 1
        out = f["sig"]["output"]
        rel = mentions(out)
        owner = item.get("path") if item.get("k") == "adt" and item.get("path") in inplace else None
        res.inst(sample={"operation": f["path"], "returns": out["s"], "iterator_item": item["s"], "destructor_relocates_slots": rel, "item_destroys_in_place": bool(owner)},
                 func=f["path"])
        if rel and owner:
            res.fail(f["path"], "item-outlives-relocating-iterator",
                     "%s returns an iterator whose destructor (%s) moves elements to other slots, while its items (%s) destroy their element in place through the "
                     "slot address they keep (%s): an item can outlive the iterator (Iterator::Item cannot borrow from it), and then destroys whatever was moved "
                     "into its slot - that element is destroyed twice and the item's own element never"
                     % (f["path"], relocating[rel][0], item["s"], inplace[owner][0]), span=ctx.span_of(f["path"]))
        else:
            res.ok()
    # (b) a NON-owning wrapper around an in-place owner (`ManuallyDrop<owner>`: references to live elements) must not lend the owner out by `&mut`
    # when owned values of the same type can be obtained elsewhere (iterator items, returned handles): `mem::swap` then exchanges the two - the owned
    # handle now names the live element (destroyed while still in its vector, and again with it), the wrapper swallows the owned one (never destroyed)
    obtainable = {}
    for f in fx.fn_list:
        if not ctx.is_public(f) or f.get("unsafe") or fx.fn(f["path"]) is not f:
            continue
        cands = [f.get("output_iter_item"), f["sig"]["output"]] if "sig" in f else []
        for t in cands:
            while t is not None and t.get("k") == "adt" and t["path"] == "core::option::Option":
                t = next((a for a in t.get("args", []) if a.get("k") != "region"), None)
            if t is not None and t.get("k") == "adt" and t["path"] in inplace:
                obtainable.setdefault(t["path"], f["path"])

    def deref_target(w):
        for im in fx.impls_of("core::ops::Deref"):
            if im["self_ty"].get("path") == w:
                for it in im["items"]:
                    if it["name"] == "Target" and "ty" in it:
                        return it["ty"]
        return None
    for f in fx.fn_list:
        if f.get("kind") != "AssocFn" or f.get("self_kind") != "mut" or f.get("unsafe") or not ctx.is_public(f) or fx.fn(f["path"]) is not f:
            continue
        out = f["sig"]["output"]
        if out.get("k") != "ref" or not out.get("mut"):
            continue
        w = f.get("impl_self_ty", {})
        if w.get("k") != "adt" or w["path"] not in fx.adts:
            continue
        to = out["to"]
        if to.get("k") == "alias" and to.get("path") == "core::ops::Deref::Target":
            to = deref_target(w["path"]) or to
        if to.get("k") != "adt" or to["path"] not in inplace:
            continue
        wraps = any(fl["ty"].get("k") == "adt" and fl["ty"]["path"] == "core::mem::ManuallyDrop"
                    and any(a.get("k") == "adt" and a["path"] == to["path"] for a in fl["ty"].get("args", []))
                    for v in fx.adts[w["path"]]["variants"] for fl in v["fields"])
        res.inst(sample={"method": f["path"], "lends": "&mut " + to["s"], "receiver_wraps_it_in_ManuallyDrop": wraps, "owned_values_obtainable_from": obtainable.get(to["path"])},
                 func=f["path"])
        if wraps and to["path"] in obtainable:
            res.fail(f["path"], "non-owning-handle-lends-owner", "%s hands out `&mut %s` from a handle that only REFERS to a live element (it keeps the owner inside "
                     "ManuallyDrop), while owned values of that type are obtainable (%s): `mem::swap` exchanges them in safe code - the owned handle then destroys "
                     "the element that is still in its vector (destroyed again with the vector) and the referring handle swallows the owned one (never destroyed)"
                     % (f["path"], to["s"], obtainable[to["path"]]), span=ctx.span_of(f["path"]))
        else:
            res.ok()
    if not relocating or not inplace:
        res.coverage_lost("<crate>", "expected destructors that relocate slots (range handles) and destructors that destroy in place (owned element pointers); "
                          "found %d / %d" % (len(relocating), len(inplace)))
    return res
