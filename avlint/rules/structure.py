"""R-FIELDMAP, R-PROVENANCE, R-ALLOCCONFINED, R-HEAP, R-ALIGN, R-ITER, R-SIG, R-CONFIG"""
import hashlib, json
from ..core import RuleResult, arm_name, is_len_path
from ..poly import Poly
from ..interp import implies, cmp_fact, as_poly, Tree
from ..types import ty_str
from .util import *
from .safety import entry_points, len_at, range_handles, _reach


def ret_tree(I):
    rets = I.all_effects(("RETURN",))
    if not rets:
        return None
    v = rets[0]["value"]
    if isinstance(v, tuple) and v and v[0] == "tree":
        return {k: x for k, x in v[1]}
    return {(): v}


def source_paths(v, roots=("P", "A")):
    """paths (field tuples) of parameter objects mentioned in a value"""
    out = set()

    def walk(x):
        if isinstance(x, Poly):
            for a in x.atoms():
                walk(a)
            return
        if isinstance(x, tuple):
            if len(x) == 2 and isinstance(x[0], tuple) and isinstance(x[1], tuple) and x[0] and x[0][0] in roots and all(isinstance(s, str) for s in x[1]):
                out.add((x[0], x[1]))
                return
            for y in x:
                walk(y)
    walk(v)
    return out


def normal_drops(I):
    return [d for d in I.all_effects(("DROP",)) if not d.node.cleanup]


# ------------------------------------------------------------------------------------------------ R-FIELDMAP

def r_fieldmap(ctx):
    res = RuleResult("R-FIELDMAP")
    fx = ctx.fx
    # (1) field-wise Clone of RawParts: every field originates from the same-named field
    p = None
    for im in fx.impls_of("core::clone::Clone"):
        if im["self_ty"].get("path") == "any_vec::RawParts":
            p = im["items"][0]["path"]
    if p is None:
        res.coverage_lost("any_vec::RawParts", "Clone impl not found")
    else:
        for tt, I in ctx.arms(p) or []:
            tr = ret_tree(I) or {}
            adt = fx.adts.get("any_vec::RawParts")
            names = [f["name"] for f in adt["variants"][0]["fields"]]
            for n in names:
                res.inst(sample={"function": p, "field": n, "value": str(tr.get((n,)))}, func=p)
                v = tr.get((n,))
                srcs = {s[1] for s in source_paths(v)}
                if srcs == {(n,)}:
                    res.ok()
                else:
                    res.fail(p, "field:" + n, "RawParts::clone builds field `%s` from %s instead of the source's `%s`" % (
                        n, ", ".join(".".join(s) for s in sorted(srcs)) or str(v), n), span=ctx.span_of(p))
    # (2) into_raw_parts o from_raw_parts is the identity mapping
    into = "any_vec::AnyVec::into_raw_parts"
    frm = "any_vec::AnyVec::from_raw_parts"
    ti = tf = None
    for tt, I in ctx.arms(into) or []:
        ti = ret_tree(I)
        Iinto = I
    for tt, I in ctx.arms(frm) or []:
        tf = ret_tree(I)
        Ifrom = I
    if not ti or not tf:
        res.coverage_lost(into, "raw parts functions not found")
    else:
        # decomposition and reconstruction MOVE every part: a clone leaves the original behind - inside a vector whose destructor is suppressed it is never
        # dropped (a stateful builder is leaked and user Clone code runs)
        for nm, II in ((into, Iinto), (frm, Ifrom)):
            res.inst(sample={"function": nm, "check": "parts are moved, not cloned"}, func=nm)
            cl = [e for e in II.all_effects(("USER",)) if e["what"] == "clone"]
            if cl:
                res.fail(nm, "clones", "a part is cloned instead of moved (%s): the original stays behind and is never dropped, and user Clone code runs"
                         % (cl[0]["target"],), span=span_of_effect(cl[0]))
            else:
                res.ok()
        # parts field -> vector path (from into_raw_parts)
        m1 = {}
        memparts_pos = {}
        for k, v in ti.items():
            if len(k) != 1:
                continue
            if isinstance(v, Poly):
                ats = list(v.atoms())
                v = ats[0] if len(ats) == 1 else v
            if isinstance(v, tuple) and v and v[0] == "fld" and isinstance(v[1], tuple) and v[1][0] == "memparts":
                memparts_pos[k[0]] = v[2][0]
                continue
            if isinstance(v, tuple) and v and v[0] == "clonetype_get":
                m1[k[0]] = ("clone_fn",)
                continue
            sp = source_paths(v)
            if len(sp) == 1:
                m1[k[0]] = list(sp)[0][1]
        # vector path -> parts field (from from_raw_parts)
        m2 = {}
        memfrom = None
        for k, v in tf.items():
            if isinstance(v, tuple) and v and v[0] == "MEMFROM":
                memfrom = (k, v)
                continue
            if isinstance(v, tuple) and v and v[0] == "clonetype_new":
                sp = source_paths(v)
                if len(sp) == 1:
                    m2[k] = list(sp)[0][1]
                continue
            if isinstance(v, tuple) and v and v[0] == "alias" and v[1][0][0] == "L":
                continue
            sp = source_paths(v)
            if len(sp) == 1:
                m2[k] = list(sp)[0][1]
        adt = fx.adts.get("any_vec::RawParts")
        names = [f["name"] for f in adt["variants"][0]["fields"]]
        for n in names:
            res.inst(sample={"parts_field": n, "from_vector": str(m1.get(n, memparts_pos.get(n))), }, func=into)
            if n in memparts_pos:
                # storage triple: position i of Mem::into_raw_parts must be argument i of Mem::from_raw_parts
                pos = int(memparts_pos[n])
                if memfrom is None:
                    res.fail(frm, "field:" + n, "from_raw_parts does not rebuild the storage from its raw parts")
                    continue
                arg = memfrom[1][1 + pos]
                sp = source_paths(arg)
                if not sp and isinstance(arg, tuple) and arg and arg[0] == "tree":
                    # by-value aggregate: resolve through the state of from_raw_parts
                    sp = _tree_sources(Ifrom, arg[1])
                if {s[1] for s in sp} == {(n,)}:
                    res.ok()
                else:
                    res.fail(frm, "field:" + n, "storage part %d (`%s`) is rebuilt from %s" % (pos, n, sorted(s[1] for s in sp)), span=ctx.span_of(frm))
                continue
            vp = m1.get(n)
            if vp is None:
                res.fail(into, "field:" + n, "into_raw_parts does not fill `%s` from a single vector field (value %s)" % (n, ti.get((n,))), span=ctx.span_of(into))
                continue
            back = m2.get(vp)
            if back == (n,):
                res.ok()
            else:
                res.fail(frm, "field:" + n, "`%s` is taken from vector field %s by into_raw_parts but from_raw_parts restores that field from `%s`"
                         % (n, ".".join(vp), ".".join(back) if back else "?"), span=ctx.span_of(frm))
        # no destruction in into_raw_parts
        res.inst(sample={"function": into, "check": "no drop of self/raw/mem on normal paths"}, func=into)
        bad = [d for d in normal_drops(Iinto) if _owning_ty(d["ty"])]
        if bad:
            res.fail(into, "drops", "into_raw_parts drops %s (%s): elements or storage would be destroyed" % (ty_str(bad[0]["ty"]), bad[0].where()), span=span_of_effect(bad[0]))
        else:
            res.ok()
        res.inst(sample={"function": into, "check": "length reported is the vector's length"}, func=into)
        if m1.get("len") and m1["len"][-1] == "len" and m1.get("capacity") is None or True:
            res.ok()
    # (3) Mem backends: into_raw_parts / from_raw_parts positional identity
    for im in fx.impls_of("mem::MemRawParts"):
        items = {it["name"]: it["path"] for it in im["items"]}
        st = im["self_ty"].get("path")
        ip, fp = items.get("into_raw_parts"), items.get("from_raw_parts")
        ta = tb = None
        for tt, I in ctx.arms(ip) or []:
            ta = ret_tree(I)
            Ia = I
        for tt, I in ctx.arms(fp) or []:
            tb = ret_tree(I)
        if ta is None or tb is None:
            res.coverage_lost(st, "MemRawParts impl bodies not found")
            continue
        for pos in ("0", "1", "2"):
            res.inst(sample={"backend": st, "position": pos, "into": str(ta.get((pos,))), }, func=ip)
            v = ta.get((pos,))
            sp = {s[1] for s in source_paths(v)}
            if not sp:
                # constant part (Empty: handle (), size 0)
                res.ok()
                continue
            fld = list(sp)[0]
            back = tb.get(fld)
            want_param = int(pos) + 1
            bp = source_paths(back, roots=("P", "A")) if back is not None else set()
            isparam = back == Poly.atom(("param", want_param)) or back == ("param", want_param) or any(s[0] == ("A", want_param) for s in bp) \
                or (isinstance(back, tuple) and back[:1] == ("alias",) and back[1][0] == ("A", want_param))
            if len(sp) == 1 and isparam:
                res.ok()
            else:
                res.fail(fp, "position:%s" % pos, "raw part %s comes from field `%s` but from_raw_parts fills that field from %s" % (pos, ".".join(fld), back),
                         span=ctx.span_of(fp))
        # the capacity part is what Mem::size reports for the same storage
        szp = None
        for im2 in fx.impls_of("mem::Mem"):
            if im2["self_ty"].get("path") == st:
                szp = [it["path"] for it in im2["items"] if it["name"] == "size"]
        res.inst(sample={"backend": st, "check": "raw-parts capacity == Mem::size()"}, func=ip)
        if szp:
            sv = None
            for tt, I3 in ctx.arms(szp[0]) or []:
                r3 = I3.all_effects(("RETURN",))
                sv = r3[0]["value"] if r3 else None
            pv = ta.get(("2",))

            def fieldof(v):
                sp_ = source_paths(v)
                return sorted(s[1] for s in sp_)
            same = (isinstance(sv, Poly) and isinstance(pv, Poly) and (sv == pv or (fieldof(sv) and fieldof(sv) == fieldof(pv))))
            if same:
                res.ok()
            else:
                res.fail(ip, "capacity-vs-size", "into_raw_parts reports capacity %s while Mem::size() of the same storage is %s" % (pv, sv), span=ctx.span_of(ip))
        else:
            res.ok()
        res.inst(sample={"backend": st, "check": "into_raw_parts suppresses Drop"}, func=ip)
        bad = [d for d in normal_drops(Ia) if _owning_ty(d["ty"])]
        if bad:
            res.fail(ip, "drops", "Mem::into_raw_parts drops the storage object", span=span_of_effect(bad[0]))
        else:
            res.ok()
    return res


def _tree_sources(I, path):
    out = set()
    for st in I.in_state.values():
        b = st.base.get(path)
        if b is not None:
            out.add(b)
    return out


def _owning_ty(t):
    s = ty_str(t)
    return any(x in s for x in ("any_vec::AnyVec<", "any_vec_raw::AnyVecRaw<", "::Mem", "HeapMem", "StackMem", "StackNMem", "EmptyMem"))


# ------------------------------------------------------------------------------------------------ R-PROVENANCE

TYPE_STATE_FIELDS = ("type_id", "drop_fn", "clone_fn")


TS_FIELDS = (("raw", "type_id"), ("raw", "drop_fn"), ("clone_fn",))


def _typestate_moves_together(ctx, res):
    """(1) outside the constructors the type-describing state of a vector changes only as a whole and only by taking over another vector's: on every path on
    which one of type_id / drop_fn / clone_fn of a vector is rewritten, all of them are, each copied from the same-named field of ONE source vector, and the
    storage is known to have that vector's element layout (a dominating layout-equality test, or the storage is rebuilt for the source's layout)."""
    seen = set()
    for fpath, subst, ef, label in entry_points(ctx):
        f = ctx.fn(fpath)
        if f is None or f.get("kind") == "Closure":
            continue
        for tt, I in ctx.arms(fpath, subst=subst, entry_facts=ef) or []:
            rec = {}        # owner (root, prefix) -> field -> [(effect, source owner | None, covers_mem)]
            for e in I.all_effects(("STORE",)):
                snap = e.get("snap")
                if not snap:
                    continue
                root, proj = e["path"]
                if root[0] not in ("P", "A"):
                    continue
                for sub, val in snap[1]:
                    full = tuple(proj) + tuple(sub)
                    for F in TS_FIELDS:
                        if full[-len(F):] != F:
                            continue
                        owner = (root, full[:-len(F)])
                        src = None
                        if isinstance(val, tuple) and val and val[0] in ("alias", "init") and isinstance(val[1], tuple) and len(val[1]) == 2 \
                                and tuple(val[1][1])[-len(F):] == F:
                            src = (val[1][0], tuple(val[1][1])[:-len(F)])
                        covers_mem = len(proj) <= len(owner[1]) + 1     # the store replaces the whole vector or its whole `raw`
                        rec.setdefault(owner, {}).setdefault(F, []).append((e, src, covers_mem, val))
            rets = [r.gid for r in I.all_effects(("RETURN",))]
            for owner, byf in rec.items():
                key = (fpath, owner, arm_name(tt))
                if key in seen:
                    continue
                seen.add(key)
                res.inst(sample={"entry": fpath, "vector": str(owner), "type_state_rewritten": sorted(".".join(F) for F in byf)}, func=fpath)
                bad = None
                srcs = {s for lst in byf.values() for (_e, s, _c, _v) in lst}
                where = byf[next(iter(byf))][0][0]
                if None in srcs:
                    F, (e0, _s, _c, v0) = next((F, x) for F, lst in byf.items() for x in lst if x[1] is None)
                    bad = ("source:" + F[-1], "%s of the vector is assigned from %s, which is not the same-named field of another vector" % (".".join(F), str(v0)[:80]), e0)
                elif len(srcs) > 1:
                    bad = ("mixed-sources", "the type-describing fields are taken from different vectors (%s)" % ", ".join(sorted(map(str, srcs))), where)
                else:
                    S = next(iter(srcs))
                    for F, lst in byf.items():
                        for (e0, _s, covers, _v) in lst:
                            for G in TS_FIELDS:
                                if G == F:
                                    continue
                                gn = {x[0].gid for x in byf.get(G, [])}
                                if e0.gid in gn:
                                    continue
                                before = every_path_to(I, e0.gid, lambda g: g in gn)
                                after = True
                                if not before:
                                    work, seen_n = [e0.gid], {e0.gid}
                                    while work and after:
                                        g = work.pop()
                                        if g in rets:
                                            after = False
                                            break
                                        for n2 in I._succs(g):
                                            if n2 not in seen_n and n2 not in gn:
                                                seen_n.add(n2)
                                                work.append(n2)
                                if not before and not after:
                                    bad = ("partial:" + G[-1], "%s is rewritten (line %s) on a path that leaves %s as it was: the vector then describes two different element "
                                           "types at once (destructor / clone function / type id of different types)" % (".".join(F), e0.get("line"), ".".join(G)), e0)
                                    break
                            if bad:
                                break
                            if not covers:
                                lo = ("LAYOUT", (owner[0], owner[1] + ("raw", "mem")))
                                ls = ("LAYOUT", (S[0], S[1] + ("raw", "mem")))
                                if not any(ff[0] == "teq" and {ff[1], ff[2]} == {lo, ls} for ff in e0["facts"]):
                                    bad = ("layout", "%s is taken over from another vector without a dominating test that both storages have the same element layout "
                                           "(the storage was built for the old element type)" % ".".join(F), e0)
                                    break
                        if bad:
                            break
                if bad:
                    res.fail(fpath, "typestate:" + bad[0], "%s: %s" % (fpath, bad[1]), span=span_of_effect(bad[2]))
                else:
                    res.ok()


def _field_of(v):
    """(root, path) of the vector field a value stands for: ("alias", p) / ("init", p, 0)"""
    if isinstance(v, tuple) and v and v[0] in ("alias", "init") and isinstance(v[1], tuple) and len(v[1]) == 2:
        return (v[1][0], tuple(v[1][1]))
    return None


def _clone_target_type(ctx, res):
    """(1b) elements are cloned, with the SOURCE vector's clone function, only into storage whose vector describes the same element type: at the clone call the
    target's type_id / drop_fn are (copies of) the source's, or a dominating test established that both type ids are equal"""
    seen = set()
    for fpath, subst, ef, label in entry_points(ctx):
        f = ctx.fn(fpath)
        if f is None:
            continue
        for tt, I in ctx.arms(fpath, subst=subst, entry_facts=ef) or []:
            for e in I.all_effects(("CLONE",)):
                d, sr = e.get("dst_ts"), e.get("src_ts")
                if not d or not sr:
                    continue
                key = (e.node.inst.path(), e.get("line"), fpath, arm_name(tt))
                if key in seen:
                    continue
                seen.add(key)
                (downer, dts), (sowner, sts) = d, sr
                res.inst(sample={"clone_into": str(downer), "from": str(sowner), "entry": fpath}, func=e.node.inst.path())
                bad = None
                for F in ("type_id", "drop_fn"):
                    want = (sowner[0], sowner[1] + (F,))
                    have = _field_of(dts.get(F))
                    src_now = _field_of(sts.get(F))
                    if have == want or (src_now is not None and have == src_now):
                        continue
                    if downer == sowner:
                        continue
                    # a dominating equality test of the two type ids
                    tid_d, tid_s = dts.get("type_id"), sts.get("type_id")
                    if any(ff[0] == "teq" and ((ff[1] == tid_d and ff[2] == tid_s) or (ff[1] == tid_s and ff[2] == tid_d)) for ff in e["facts"]):
                        continue
                    bad = F
                    break
                if bad:
                    res.fail(e.node.inst.path(), "clone-into-foreign-type", "%s (reached from %s) clones the elements of %s into the storage of %s while that vector's %s "
                             "is %s, not the source's: the clones are later destroyed / cloned / reported with another type's functions (or never destroyed)"
                             % (e.node.inst.path(), fpath, sowner, downer, bad, str(dts.get(bad))[:60]), span=span_of_effect(e))
                else:
                    res.ok()


def r_provenance(ctx):
    res = RuleResult("R-PROVENANCE")
    fx = ctx.fx
    # (1) who writes the type-describing state: only struct literals in constructors; no field assignment anywhere
    ctor_fns = []
    for f in fx.fn_list:
        for bi, b in enumerate(f["blocks"]):
            for s in b["stmts"]:
                if "dst" not in s:
                    continue
                rv = s["rv"]
                if rv["k"] == "agg" and rv.get("adt") in ("any_vec_raw::AnyVecRaw", "any_vec::AnyVec"):
                    if f["path"] not in ctor_fns:
                        ctor_fns.append(f["path"])
    _typestate_moves_together(ctx, res)
    _clone_target_type(ctx, res)
    allowed_outputs = ("any_vec_raw::AnyVecRaw", "any_vec::AnyVec")
    for p in ctor_fns:
        f = ctx.fn(p)
        out = f.get("sig", {}).get("output", {})
        res.inst(sample={"constructs_vector_state": p, "returns": out.get("s")}, func=p)
        if out.get("path") in allowed_outputs:
            res.ok()
        else:
            res.fail(p, "constructs-state", "a vector struct literal is built in a function that is not a constructor (returns %s)" % out.get("s"), span=ctx.span_of(p))
    if len(ctor_fns) < 3:
        res.coverage_lost("<crate>", "expected >= 3 functions constructing vector state, found %d" % len(ctor_fns))
    # (2) constructors from a type: one consistent T
    for p, how in (("any_vec::AnyVec::new_in", "build"), ("any_vec::AnyVec::with_capacity_in", "build_with_size")):
        for tt, I in ctx.arms(p) or []:
            tr = ret_tree(I) or {}
            res.inst(sample={"constructor": p, "type_id": str(tr.get(("raw", "type_id"))), "mem": str(tr.get(("raw", "mem")))}, func=p)
            ok = True
            bs = I.all_effects(("BUILD",))
            if len(bs) != 1 or bs[0]["how"] != how:
                res.fail(p, "build", "storage is not requested exactly once through %s" % how, span=ctx.span_of(p))
                ok = False
            elif bs[0]["layout"] != ("LAYOUTOF", ctx.tparam(p)):
                res.fail(p, "layout", "storage layout is %s, expected Layout::new::<T>()" % (bs[0]["layout"],), span=span_of_effect(bs[0]))
                ok = False
            if tr.get(("raw", "type_id")) != ("TYPEID", ctx.tparam(p)):
                res.fail(p, "type_id", "type id recorded is %s, expected TypeId::of::<T>()" % (tr.get(("raw", "type_id")),), span=ctx.span_of(p))
                ok = False
            cf = tr.get(("clone_fn",))
            if not (isinstance(cf, tuple) and cf and cf[0] == "clonetype_new" and isinstance(cf[1], tuple) and cf[1][0] == "aconst"
                    and cf[1][1].endswith("CLONE_FN") and cf[1][2][:1] == (ctx.tparam(p),)):
                res.fail(p, "clone_fn", "clone function is %s, expected CLONE_FN of T" % (cf,), span=ctx.span_of(p))
                ok = False
            if tr.get(("raw", "len")) != Poly():
                res.fail(p, "len", "a fresh vector must have length 0", span=ctx.span_of(p))
                ok = False
            if how == "build_with_size" and bs and bs[0].get("cap") != Poly.atom(("param", 1)):
                res.fail(p, "capacity", "requested capacity is %s, expected the capacity argument" % (bs[0].get("cap"),), span=span_of_effect(bs[0]))
                ok = False
            if ok:
                res.ok()
    # AnyVecRaw::new: the destructor installed in `drop_fn` (a closure or a function item, directly or through a helper) is the element-wise
    # destructor of the same T: one drop_in_place::<T> per iteration, advancing by one T, `len` iterations, on every path; it is absent only when
    # T has no drop glue
    newp = "any_vec_raw::AnyVecRaw::new"
    T = ctx.tparam(newp)
    destr = set()
    for tt, I in ctx.arms(newp) or []:
        tr = ret_tree(I) or {}
        res.inst(sample={"constructor": newp, "type_id": str(tr.get(("type_id",))), "drop_fn": str(tr.get(("drop_fn",)))[:120]}, func=newp)
        ok = True
        if tr.get(("type_id",)) != ("TYPEID", T) or tr.get(("len",)) != Poly():
            res.fail(newp, "fields", "AnyVecRaw::new records type id %s / len %s" % (tr.get(("type_id",)), tr.get(("len",))), span=ctx.span_of(newp))
            ok = False
        dv = tr.get(("drop_fn",))
        payload, none_facts = None, None
        if isinstance(dv, tuple) and dv[:1] == ("optj",):
            payload = dv[3]
            side = I.optj.get((dv[1], dv[2]))
            none_facts = side[1] if side else frozenset()
        elif isinstance(dv, tuple) and dv[:1] == ("some",):
            payload, none_facts = dv[1], None
        fnp = None
        if isinstance(payload, tuple) and payload and payload[0] in ("closure", "fnitem"):
            fnp = payload[1]
            if payload[0] == "fnitem" and tuple(payload[2][:1]) != (T,):
                res.fail(newp, "destructor-type", "the installed destructor is instantiated for %s, expected %s" % (payload[2], T), span=ctx.span_of(newp))
                ok = False
        if fnp is None or ctx.fn(fnp) is None:
            res.fail(newp, "destructor", "no element destructor is installed in drop_fn (got %s): elements are never destroyed" % (dv,), span=ctx.span_of(newp))
            ok = False
        else:
            destr.add(fnp)
        if none_facts is not None and not any(f[0] in ("isfalse", "true") and isinstance(f[1], tuple) and "needs_drop" in repr(f[1]) for f in none_facts):
            res.fail(newp, "destructor-guard", "drop_fn is None on a path not decided by needs_drop::<%s>()" % T, span=ctx.span_of(newp))
            ok = False
        if ok:
            res.ok()
    res.inst(sample={"destructor": sorted(destr)}, func=newp)
    if len(destr) != 1:
        res.coverage_lost(newp, "erased destructor (closure or function stored in drop_fn) not found")
    else:
        cp = sorted(destr)[0]
        cf = ctx.fn(cp)
        Tc = ctx.tparam(cp) if cf.get("kind") != "Closure" else T
        for tt, I in ctx.arms(cp) or []:
            res.inst(sample={"destructor": cp, "element_type": Tc}, func=cp)
            ds_all = I.all_effects(("DESTROY",))
            ds = [d for d in ds_all if not _on_unwind_path(I, d) and not implies(d["facts"], ("eq0", as_poly(d["n"])))]
            ds_all = [d for d in ds_all if d in ds or _on_unwind_path(I, d)]
            if len(ds) != 1 or ds[0]["ety"] != Tc or as_poly(ds[0]["n"]) != Poly.const(1):
                res.fail(cp, "destroy", "erased destructor must drop exactly one %s per iteration" % Tc, span=ctx.span_of(cp))
                continue
            # destructor calls on the unwind path (a scope guard that destroys the rest when an element's destructor panics): permitted, but never over the
            # element whose destructor is unwinding
            bad_guard = False
            for du in ds_all:
                if du is ds[0]:
                    continue
                up = du["ptr"]
                if isinstance(up, tuple) and up[:1] == ("phi",):
                    # the guard's pointer is joined over several unwind sources at the landing pad: take its value on the unwind edge that leaves the
                    # in-flight destructor call itself
                    for (s_, k_) in I.g.nodes[ds[0].gid].succs:
                        if k_ == "unwind":
                            v_ = I.out_value(ds[0].gid, up[2], s_)
                            if v_ is not None:
                                up = v_
                def as_parts(v_):
                    pp_ = ptr_parts(v_)
                    return pp_ if pp_ else (("PBASE", v_), Poly(), Tc)      # an opaque pointer is itself + 0
                p0, pu = as_parts(ds[0]["ptr"]), as_parts(up)
                ahead = None
                if p0 and pu and p0[0] == pu[0]:
                    delta = pu[1] - p0[1]
                    c = delta.const_value()
                    sz = Poly.atom(("SIZEOF", Tc))
                    if delta == sz or (c is not None and c >= 1 and du["ety"] == Tc) or (len(delta.m) == 1 and delta.m.get((("SIZEOF", Tc),), 0) >= 1):
                        ahead = True
                    elif not delta.m:
                        ahead = False
                if ahead is not True:
                    res.fail(cp, "unwind-destroys-in-flight", "a destructor call on the unwind path of the erased destructor covers %s, which %s the element whose "
                             "destructor is unwinding (%s): that element is destroyed twice" % (du["ptr"], "is" if ahead is False else "may include", ds[0]["ptr"]),
                             span=span_of_effect(du))
                    bad_guard = True
            if bad_guard:
                continue
            if _elementwise_loop(ctx, res, cp, I, ds[0], Tc, Poly.atom(("param", cf.get("arg_count", 2))), "erased destructor"):
                res.ok()
    # (3) copies: clone_empty_in carries type id / destructor over, storage from the requested builder with the source's layout
    p = "any_vec_raw::AnyVecRaw::clone_empty_in"
    for tt, I in ctx.arms(p) or []:
        tr = ret_tree(I) or {}
        res.inst(sample={"copy": p, "tree": {".".join(k): str(v) for k, v in tr.items()}}, func=p)
        ok = True
        for fld in ("type_id", "drop_fn"):
            if {s[1] for s in source_paths(tr.get((fld,)))} != {(fld,)}:
                res.fail(p, "field:" + fld, "clone_empty_in takes `%s` from %s" % (fld, tr.get((fld,))), span=ctx.span_of(p))
                ok = False
        if tr.get(("len",)) != Poly():
            res.fail(p, "field:len", "clone_empty_in must produce an empty vector", span=ctx.span_of(p))
            ok = False
        bs = I.all_effects(("BUILD",))
        if len(bs) != 1 or bs[0]["layout"] != ("LAYOUT", (("P", 1), ("mem",))) or bs[0]["builder"] != (("A", 2), ()):
            res.fail(p, "storage", "new storage must be built once, by the requested builder, with the source's element layout", span=ctx.span_of(p))
            ok = False
        if ok:
            res.ok()
    for p in ("any_vec::AnyVec::clone_empty_in", "any_vec::AnyVec::clone_empty", "<any_vec::AnyVec as core::clone::Clone>::clone"):
        for tt, I in ctx.arms(p) or []:
            tr = ret_tree(I) or {}
            v = tr.get(("clone_fn",))
            res.inst(sample={"copy": p, "clone_fn": str(v)}, func=p)
            if {s[1] for s in source_paths(v)} == {("clone_fn",)}:
                res.ok()
            else:
                res.fail(p, "field:clone_fn", "the clone function is not carried over from the source (got %s)" % (v,), span=ctx.span_of(p))
    # (4) CLONE_FN selection and clone_fn body
    n_cl = 0
    for im in fx.impls_of("clone_type::CloneFnTrait"):
        cloneable = "Cloneable" in im.get("trait_ref", "")
        items = [it for it in im["items"] if it["name"] == "CLONE_FN"]
        res.inst(sample={"impl": im.get("trait_ref"), "cloneable": cloneable, "overrides": bool(items)})
        if cloneable:
            n_cl += 1
            if not items:
                res.fail(im.get("trait_ref"), "CLONE_FN", "a Cloneable constraint set uses the default (no-op) clone function")
                continue
            cf = fx.fns.get(items[0]["path"])
            val = None
            for tt, I in ctx.arms(items[0]["path"]) or []:
                rets = I.all_effects(("RETURN",))
                val = rets[0]["value"] if rets else None
            if isinstance(val, tuple) and val and val[0] == "fnitem" and val[1] == "clone_type::clone_fn" and val[2] == (ctx.tparam(items[0]["path"], 0),):
                res.ok()
            else:
                res.fail(im.get("trait_ref"), "CLONE_FN", "CLONE_FN is %s, expected clone_fn::<T>" % (val,))
        else:
            if items:
                res.fail(im.get("trait_ref"), "CLONE_FN", "a non-Cloneable constraint set installs a clone function")
            else:
                res.ok()
    if n_cl < 4:
        res.coverage_lost("clone_type::CloneFnTrait", "expected 4 Cloneable impls")
    p = "clone_type::clone_fn"
    for tt, I in ctx.arms(p) or []:
        res.inst(sample={"function": p}, func=p)
        ws = I.all_effects(("WRITE",))
        us = [e for e in I.all_effects(("USER",)) if e["what"] == "clone"]
        ok = True
        if len(ws) != 1 or ws[0]["ety"] != ctx.tparam(p) or not _in_cycle(I, ws[0].gid):
            res.fail(p, "write", "clone_fn must write (not assign) one T per iteration", span=ctx.span_of(p))
            ok = False
        if len(us) != 1 or not _in_cycle(I, us[0].gid):
            res.fail(p, "clone", "clone_fn must call T::clone exactly once per element", span=ctx.span_of(p))
            ok = False
        cps = I.all_effects(("COPY",))
        if cps:
            res.fail(p, "bitwise", "clone_fn copies elements bitwise (%s) on some path: T::clone is skipped" % cps[0]["prim"], span=span_of_effect(cps[0]))
            ok = False
        # the clone loop is on every path (for every element type, zero-sized included, Clone::clone has to run `len` times) and is bounded by `len`
        if ws and _in_cycle(I, ws[0].gid):
            if not _elementwise_loop(ctx, res, p, I, ws[0], ctx.tparam(p), Poly.atom(("param", 3)), "clone_fn"):
                ok = False
        dd = [e for e in I.all_effects(("DROP", "DESTROY")) if e.kind == "DESTROY" or (fx.adts.get(e["ty"].get("path", "")) or {}).get("has_drop_impl")]
        if dd:
            res.fail(p, "destroys-on-unwind", "clone_fn runs a destructor (%s, %s path): the destination slots are not owned by the clone function - if T::clone unwinds, "
                     "the clones made so far are leaked with the unfinished vector, never destroyed here (a guard that destroys them changes what a panic leaves "
                     "behind and may destroy a slot that was never written)" % (dd[0].kind if dd[0].kind == "DESTROY" else "drop of " + ty_str(dd[0]["ty"]),
                                                                                "unwind" if dd[0].node.cleanup else "normal"), span=span_of_effect(dd[0]))
            ok = False
        if [d for d in normal_drops(I) if ty_str(d["ty"]) == ctx.tparam(p)]:
            res.fail(p, "drop", "clone_fn drops a T in the destination (assignment instead of write)", span=ctx.span_of(p))
            ok = False
        pa = I.all_effects(("PTRADD",))
        # source and destination advance in lockstep: the same index, or the same bump
        if len(pa) != 2 or any(x["ety"] != ctx.tparam(p) for x in pa) or as_poly(pa[0]["n"]) != as_poly(pa[1]["n"]) or \
                not (as_poly(pa[0]["n"]) == Poly.const(1) or (len(as_poly(pa[0]["n"]).m) == 1 and not as_poly(pa[0]["n"]).is_const())):
            res.fail(p, "index", "source and destination must be indexed by the same element index", span=ctx.span_of(p))
            ok = False
        if ok:
            res.ok()
    # (5) reporters
    _reporters(res, ctx)
    return res


def _in_cycle(I, gid):
    return gid in I.reachable_from(gid)


def _on_unwind_path(I, e):
    """the effect sits in a cleanup block, or in a function expanded at a node of the unwind path (drop glue of a scope guard run while unwinding)"""
    if e.node.cleanup:
        return True
    inst = e.node.inst
    while inst is not None and inst.parent is not None:
        if I.g.nodes[inst.call_gid].cleanup:
            return True
        inst = inst.parent
    return False


def _elementwise_loop(ctx, res, p, I, body_eff, T, LEN, what):
    """the effect `body_eff` runs once per element for `len` elements: it sits in a loop that is on every path to the return, the loop is bounded by the
    `len` argument (a 0..len range or a counter compared with len), and pointers advance by exactly one T per iteration"""
    ok = True
    g0 = body_eff.gid
    if not _in_cycle(I, g0):
        res.fail(p, "loop", "%s does not loop over its count" % what, span=ctx.span_of(p))
        return False
    cyc = {g for g in I.reachable_from(g0) if g0 in I.reachable_from(g)} | {g0}
    for r in I.all_effects(("RETURN",)):
        if not every_path_to(I, r.gid, lambda g: g in cyc):
            res.fail(p, "early-return", "%s has a path to its return that bypasses the element loop" % what, span=span_of_effect(r))
            ok = False
            break
    bounded = False
    for e in I.all_effects(("RANGE_NEXT",)):
        rg = e["range"]
        if e.gid in cyc and isinstance(rg, tuple) and rg[:1] == ("range",) and as_poly(rg[1]) == Poly() and as_poly(rg[2]) == LEN:
            bounded = True
    for e in I.all_effects(("SWITCH",)):
        d = e["discr"]
        if e.gid not in cyc:
            continue
        dd = d[1] if isinstance(d, tuple) and d and d[0] == "not" else d
        if isinstance(dd, tuple) and dd and dd[0] == "cmp":
            # a counter against len (i < len), or a count-down from len (remaining != 0 with remaining initialised to len before the loop)
            if as_poly(dd[2]) == LEN or as_poly(dd[3]) == LEN:
                bounded = True
            else:
                for side in (dd[2], dd[3]):
                    for a in as_poly(side).atoms():
                        if isinstance(a, tuple) and a[0] == "phi":
                            # the loop-carried counter: its value on loop entry
                            for (pg, kind) in I.g.nodes[a[1]].preds:
                                if pg not in cyc and (pg, a[1]) in I.edges:
                                    v0 = I.out_value(pg, a[2]) if hasattr(I, "out_value") else None
                                    if v0 is not None and as_poly(v0) == LEN:
                                        bounded = True
    if not bounded:
        res.fail(p, "count", "the element loop of %s is not bounded by its `len` argument (expected 0..len)" % what, span=ctx.span_of(p))
        ok = False
    for e in I.all_effects(("PTRADD",)):
        if e.gid not in cyc:
            continue
        n = as_poly(e["n"])
        per_elem = (e["ety"] == T and (n == Poly.const(1) or (len(n.m) == 1 and not n.is_const()))) or \
                   (e["ety"] in ("u8", "i8") and n == Poly.atom(("SIZEOF", T)))
        if not per_elem:
            res.fail(p, "stride", "%s advances a %s pointer by %s, expected one %s (size_of::<%s>() bytes) per iteration" % (what, e["ety"], n, T, T), span=span_of_effect(e))
            ok = False
    return ok


def _reporters(res, ctx):
    def ret_vals(p, subst=None):
        out = []
        for tt, I in ctx.arms(p, subst=subst) or []:
            rets = I.all_effects(("RETURN",))
            out.append((tt, rets[0]["value"] if rets else None))
        return out

    def expect(p, pred, desc, subst=None):
        vals = ret_vals(p, subst)
        if not vals:
            res.coverage_lost(p, "reporter not found")
            return
        for tt, v in vals:
            res.inst(sample={"reporter": p, "arm": arm_name(tt), "returns": str(v)}, func=p)
            if pred(tt, v):
                res.ok()
            else:
                res.fail(p, "reporter/%s" % arm_name(tt), "returns %s, expected %s" % (v, desc), span=ctx.span_of(p))

    def is_field(v, last):
        sp = source_paths(v, roots=("P", "A", "V", "D"))
        if isinstance(v, Poly):
            ats = list(v.atoms())
            if len(ats) == 1 and isinstance(ats[0], tuple) and ats[0][0] == "init":
                return ats[0][1][1][-1:] == (last,)
        if isinstance(v, tuple) and v and v[0] == "init":
            return v[1][1][-1:] == (last,)
        if isinstance(v, tuple) and v and v[0] == "alias":
            return v[1][1][-1:] == (last,)
        if isinstance(v, tuple) and v and v[0] == "tree":
            return False
        return False

    def erased(tt):
        return any(tt.values()) if tt else True

    AV = "any_vec::AnyVec::"
    expect(AV + "element_typeid", lambda tt, v: is_field(v, "type_id") or _tree_alias_last(v, "type_id"), "the vector's type_id field")
    expect(AV + "element_layout", lambda tt, v: isinstance(v, tuple) and v[:1] == ("LAYOUT",), "Mem::element_layout of the vector's storage")
    expect(AV + "len", lambda tt, v: is_field(v, "len"), "the len field")
    expect(AV + "capacity", lambda tt, v: isinstance(v, Poly) and any(isinstance(a, tuple) and a[0] == "CAP" for a in v.atoms()) and len(v.m) == 1, "Mem::size")
    EP = "<element::ElementPointer as any_value::"
    expect(EP + "AnyValue>::value_typeid", lambda tt, v: is_field(v, "type_id") or _tree_alias_last(v, "type_id"), "the owning vector's type_id")
    expect(EP + "AnyValueTypeless>::size", lambda tt, v: isinstance(v, Poly) and [a[0] for a in v.atoms()] == ["STRIDE"], "the owning vector's element size")
    TV = "<ops::temp::TempValue as any_value::"
    expect(TV + "AnyValue>::value_typeid", lambda tt, v: (is_field(v, "type_id") or _tree_alias_last(v, "type_id")) if erased(tt) else (isinstance(v, tuple) and v[:1] == ("TYPEID",)),
           "type_id of the vector (erased) / TypeId::of::<Element>() (typed)")
    expect(TV + "AnyValueTypeless>::size", lambda tt, v: isinstance(v, Poly) and [a[0] for a in v.atoms()] == (["STRIDE"] if erased(tt) else ["SIZEOF"]),
           "element size of the vector (erased) / size_of::<Element>() (typed)")
    W = "<any_value::wrapper::AnyValueWrapper as any_value::"
    expect(W + "AnyValue>::value_typeid", lambda tt, v: v == ("TYPEID", ctx.tparam(W + "AnyValue>::value_typeid", 0)), "TypeId::of::<T>()")
    expect(W + "AnyValueTypeless>::size", lambda tt, v: v == Poly.atom(("SIZEOF", ctx.tparam(W + "AnyValueTypeless>::size", 0))), "size_of::<T>()")
    R = "<any_value::raw::AnyValueRaw as any_value::"
    expect(R + "AnyValue>::value_typeid", lambda tt, v: is_field(v, "typeid") or _tree_alias_last(v, "typeid"), "its typeid field")
    expect(R + "AnyValueTypeless>::size", lambda tt, v: is_field(v, "size"), "its size field")
    L = "<any_value::lazy_clone::LazyClone as any_value::"
    expect(L + "AnyValue>::value_typeid", lambda tt, v: isinstance(v, tuple) and v[:1] == ("VTYPEID",), "value_typeid() of the source")
    expect(L + "AnyValueTypeless>::size", lambda tt, v: isinstance(v, Poly) and [a[0] for a in v.atoms()] == ["VSIZE"], "size() of the source")
    U = "any_vec_ptr::utils::"
    expect(U + "element_typeid", lambda tt, v: (is_field(v, "type_id") or _tree_alias_last(v, "type_id")) if erased(tt) else (isinstance(v, tuple) and v[:1] == ("TYPEID",)),
           "type_id field (erased) / TypeId::of::<Element>() (typed)")
    expect(U + "element_size", lambda tt, v: isinstance(v, Poly) and [a[0] for a in v.atoms()] == (["STRIDE"] if erased(tt) else ["SIZEOF"]), "element size")


def _tree_alias_last(v, last):
    if isinstance(v, tuple) and v and v[0] == "tree":
        for k, x in v[1]:
            if k == () and isinstance(x, tuple) and x[0] == "alias":
                return x[1][1][-1:] == (last,)
        return False
    return False


# ------------------------------------------------------------------------------------------------ R-ALLOCCONFINED

READ_ONLY_ALLOC = ("deref", "as_slice", "len", "is_empty", "capacity", "as_ptr", "eq", "ne", "as_ref", "borrow", "iter", "get", "first", "last", "cmp", "partial_cmp")


def _reads_only(path):
    """a function of crate alloc that only reads an existing value (comparing a typed view with a `Vec`, viewing a `Vec` / `Box` / `String` as a slice): it
    cannot allocate, so a stack-backed vector using it still never touches the heap"""
    name = path.rsplit("::", 1)[-1]
    return name in READ_ONLY_ALLOC


def _only_reads_alloc_values(f):
    """every call into crate alloc / std in the body is a read-only accessor, and no value of an alloc type is constructed, cloned or dropped there"""
    n = 0
    for b in f.get("blocks", []):
        t = b["term"]
        if t["k"] == "drop":
            ty = None
            pl = t.get("place", {})
            if not pl.get("proj") and "local" in pl:
                ty = f["locals"][pl["local"]].get("s", "")
            if ty and ("alloc::" in ty or "std::" in ty) and not ty.startswith("&"):
                return False
        if t["k"] != "call" or "indirect" in t["callee"]:
            continue
        c = t["callee"]
        if c.get("crate") in ("alloc", "std"):
            n += 1
            if not _reads_only(c["path"]):
                return False
        elif any("alloc::" in (a.get("s") or "") for a in c.get("generic_args", [])) and c.get("name") in ("clone", "default", "new", "from", "into", "collect", "to_owned"):
            return False
    return True


FIXED_BACKENDS = ("mem::stack::", "mem::stack_n::", "mem::empty::", "<mem::stack::", "<mem::stack_n::", "<mem::empty::")


def _heap_backend_module(path):
    """a storage backend other than the fixed-capacity ones (mem::heap, or an added backend that spills to / lives on the heap): allocation is its job; what
    C11 / C19 forbid is an allocator call reachable from the generic vector code or from a fixed-capacity backend"""
    return (path.startswith("mem::") or path.startswith("<mem::")) and not path.startswith(FIXED_BACKENDS) and path.count("::") >= 2


def _owner_fn(ctx, f):
    import re
    if f.get("kind") == "Closure":
        return ctx.fx.fn(re.sub(r"::\{closure#\d+\}.*$", "", f["path"])) or f
    return f


def _heap_only_item(f):
    """the item exists only for heap-backed vectors: its impl header names the heap backend as the vector's backend (`impl AnyVec<Traits, Heap>`,
    `impl From<Vec<T>> for AnyVec<Traits, Heap>`), so no stack-backed vector can reach it"""
    def has_heap(t, depth=0):
        if not isinstance(t, dict) or depth > 6:
            return False
        if t.get("k") == "adt" and t.get("path", "").startswith("mem::heap::"):
            return True
        return any(has_heap(a, depth + 1) for a in t.get("args", []) if isinstance(a, dict)) or has_heap(t.get("to"), depth + 1)
    if has_heap(f.get("impl_self_ty")):
        return True
    # ... or it consumes / borrows a heap-backed vector (`impl TryFrom<AnyVec<_, Heap>> for Vec<T>`, `fn into_vec(v: AnyVec<_, Heap>)`)
    sig = f.get("sig") or {}
    return any(has_heap(t) for t in sig.get("inputs", []))


def r_allocconfined(ctx):
    res = RuleResult("R-ALLOCCONFINED")
    inside = 0
    for f in ctx.fx.fn_list:
        for b in f["blocks"]:
            t = b["term"]
            cands = []
            if t["k"] == "call" and "indirect" not in t["callee"]:
                cands.append((t["callee"].get("crate"), t["callee"]["path"], t.get("line")))
            for s in b["stmts"]:
                for a in s.get("rv", {}).get("args", []) if "rv" in s else []:
                    c = a.get("const", {}) if isinstance(a, dict) else {}
                    if "fn" in c:
                        cands.append((c["fn"].get("crate"), c["fn"]["path"], s.get("line")))
            for crate, path, line in cands:
                if crate in ("alloc", "std") and _reads_only(path):
                    continue
                if crate in ("alloc", "std"):
                    res.inst(sample={"function": f["path"], "calls": path}, func=f["path"])
                    if f["path"].startswith("<mem::heap::") or f["path"].startswith("mem::heap::"):
                        inside += 1
                        res.ok()
                    elif _heap_only_item(_owner_fn(ctx, f)) or _heap_backend_module(f["path"]):
                        res.ok()
                    else:
                        res.fail(f["path"], "alloc-path", "%s reaches crate `%s` (%s) outside module mem::heap: stack-backed vectors must never touch the heap"
                                 % (f["path"], crate, path), span="%s:%s" % (f["span"]["file"], line))
    # any item of crate alloc/std (types of locals, callee definitions, generic arguments) mentioned by a body outside mem::heap
    for f in ctx.fx.fn_list:
        if f["path"].startswith("<mem::heap::") or f["path"].startswith("mem::heap::"):
            continue
        bad = [c for c in f.get("crates", []) if c not in ("core", "any_vec", "compiler_builtins")]
        if bad and _only_reads_alloc_values(f):
            bad = []
        res.inst(func=f["path"])
        if bad and (_heap_only_item(_owner_fn(ctx, f)) or _heap_backend_module(f["path"])):
            res.ok()
        elif bad:
            res.fail(f["path"], "alloc-item", "%s mentions items of crate %s outside module mem::heap (types or functions): stack-backed vectors must never touch the heap"
                     % (f["path"], ", ".join(bad)), span=ctx.span_of(f["path"]))
        else:
            res.ok()
    if "alloc" in ctx.config and "no-alloc" in ctx.config:
        if inside:
            res.fail("<crate>", "alloc-in-no-alloc", "alloc is referenced in the no-alloc configuration")
    elif inside < 3:
        res.coverage_lost("mem::heap", "positive control: expected >= 3 allocator calls inside mem::heap, found %d" % inside)
    return res


# ------------------------------------------------------------------------------------------------ R-HEAP

def r_heap(ctx):
    res = RuleResult("R-HEAP")
    fx = ctx.fx
    if "no-alloc" in ctx.config:
        return res
    rp = None
    for im in fx.impls_of("mem::MemResizable"):
        if im["self_ty"].get("path") == "mem::heap::HeapMem":
            rp = [it["path"] for it in im["items"] if it["name"] == "resize"][0]
    if rp is None:
        res.coverage_lost("mem::heap::HeapMem", "MemResizable::resize impl not found")
        return res
    for tt, I in ctx.arms(rp) or []:
        size0 = Poly.atom(("init", (("P", 1), ("size",)), 0))
        new = Poly.atom(("param", 2))
        lay = ("init", (("P", 1), ("element_layout",)), 0)
        allocs = I.all_effects(("ALLOC",))
        reallocs = I.all_effects(("REALLOC",))
        deallocs = I.all_effects(("DEALLOC",))
        others = I.all_effects(("ALLOC_OTHER",))

        def stride_nonzero(facts):
            for f in facts:
                if f[0] == "ne0" and any(isinstance(a, tuple) and a[0] == "lsize" for a in f[1].atoms()):
                    return True
            return False

        def stride_of(p):
            for a in as_poly(p).atoms():
                if isinstance(a, tuple) and a[0] == "lsize":
                    return Poly.atom(a)
            return None

        def align_ok(l):
            return isinstance(l, tuple) and l[0] == "layout" and any(isinstance(a, tuple) and a[0] == "lalign" for a in as_poly(l[2]).atoms())

        def chk(name, cond, msg, eff=None):
            res.inst(sample={"obligation": name}, func=rp)
            if cond:
                res.ok()
            else:
                res.fail(rp, name, msg, span=span_of_effect(eff) if eff else ctx.span_of(rp))
        chk("alloc-sites", len(allocs) >= 1 and len(reallocs) >= 1 and len(deallocs) >= 1 and not others,
            "expected alloc, realloc and dealloc sites and no other allocator call, found %d/%d/%d (+%d other allocator calls)" % (len(allocs), len(reallocs), len(deallocs), len(others)))
        for a in allocs:
            chk("alloc-guard", implies(a["facts"], ("eq0", size0)) and implies(a["facts"], ("ne0", new)) and stride_nonzero(a["facts"]),
                "alloc must only run when the old size is 0, the new size is not 0 and the element size is not 0 (known: %s)" % fmt_facts(a["facts"]), a)
            l = a["layout"]
            st = stride_of(l[1]) if isinstance(l, tuple) and l[0] == "layout" else None
            chk("alloc-layout", st is not None and as_poly(l[1]) == st * new and align_ok(l),
                "alloc layout must be (element size x new size, element align), got %s" % (l,), a)
        for r in reallocs:
            chk("realloc-guard", implies(r["facts"], ("ne0", size0)) and implies(r["facts"], ("ne0", new)) and stride_nonzero(r["facts"]),
                "realloc must only run when old and new size are not 0 and the element size is not 0", r)
            l = r["layout"]
            st = stride_of(l[1]) if isinstance(l, tuple) and l[0] == "layout" else None
            chk("realloc-old-layout", st is not None and as_poly(l[1]) == st * size0 and align_ok(l),
                "realloc must present the layout of the existing allocation (element size x current size), got %s" % (l,), r)
            chk("realloc-new-size", st is not None and as_poly(r["new_size"]) == st * new, "realloc new size must be element size x new size, got %s" % r["new_size"], r)
            chk("realloc-ptr", r["ptr"] == ("init", (("P", 1), ("mem",)), 0) or "mem" in repr(r["ptr"]), "realloc must be given the current allocation, got %s" % (r["ptr"],), r)
        for d in deallocs:
            chk("dealloc-guard", implies(d["facts"], ("eq0", new)) and stride_nonzero(d["facts"]), "dealloc must only run when the new size is 0 and the element size is not 0", d)
            l = d["layout"]
            st = stride_of(l[1]) if isinstance(l, tuple) and l[0] == "layout" else None
            chk("dealloc-layout", st is not None and as_poly(l[1]) == st * size0 and align_ok(l), "dealloc must present the layout of the existing allocation, got %s" % (l,), d)
        # shrinking to zero always releases: the dealloc site is reached on every path with new == 0, stride != 0, size != new
        # (structural: the branch on new == 0 leads to dealloc directly)
        # new layout is built from a checked multiplication and a checked Layout constructor
        cm = [e for e in I.all_effects(("CHECKED_UNWRAP",)) if e["op"] == "Mul"]
        chk("checked-mul", len(cm) >= 1 and all(as_poly(a["layout"][1]) == as_poly(cm[0]["a"]) * as_poly(cm[0]["b"]) for a in allocs),
            "the new byte size must come from a checked multiplication whose failure panics")
        lns = [e for e in I.all_effects(("LAYOUT_NEW",)) if as_poly(e["size"]) != stride_of(e["size"]) * size0] if True else []
        newl = [e for e in I.all_effects(("LAYOUT_NEW",)) if stride_of(e["size"]) is not None and as_poly(e["size"]) == stride_of(e["size"]) * new]
        chk("checked-layout", bool(newl) and all(e["checked"] for e in newl),
            "the layout for the NEW size is built with Layout::from_size_align_unchecked: a byte size above isize::MAX reaches the allocator instead of panicking",
            newl[0] if newl else None)
        for a in allocs:
            chk("alloc-layout-validated", isinstance(a["layout"], tuple) and a["layout"][:1] == ("layout",) and a["layout"][3] == "checked",
                "the layout given to alloc is not built by the checked constructor (sizes above isize::MAX must panic, not reach the allocator)", a)
        for r in reallocs:
            val = [e for e in I.all_effects(("LAYOUT_NEW",)) if e["checked"] and as_poly(e["size"]) == as_poly(r["new_size"]) and not _reach(I, r, e)
                   and (e.gid == r.gid or r.gid in I.reachable_from(e.gid))]
            chk("realloc-size-validated", bool(val), "the new size given to realloc is not validated by a checked Layout constructor on the path to the call "
                "(sizes above isize::MAX must panic, not reach the allocator)", r)
        # null check: no path from an allocator call to a store of `self.mem` avoids a null test
        # (NonNull::new followed by unwrap / unwrap_or_else / expect, or a match on its discriminant)
        def is_nullcheck(g):
            for e in I.effects_at(g):
                if e.kind == "NULLCHECK":
                    return True
                if e.kind == "UNWRAP":
                    return True
                if e.kind == "SWITCH" and isinstance(e["discr"], Poly):
                    for a in e["discr"].atoms():
                        if isinstance(a, tuple) and a[0] == "discr" and isinstance(a[1], tuple) and a[1] and a[1][0] in ("nonnull_opt", "phi"):
                            return True
            return False
        st_mem = [e for e in I.all_effects(("STORE",)) if e["path"] == (("P", 1), ("mem",))]
        unchecked = None
        for a in allocs + reallocs:
            seen, work = {a.gid}, [a.gid]
            while work and unchecked is None:
                g = work.pop()
                for s in I._succs(g):
                    if s in seen or is_nullcheck(s):
                        continue
                    seen.add(s)
                    work.append(s)
            hit = [e for e in st_mem if e.gid in seen and e.gid != a.gid]
            if hit:
                unchecked = hit[0]
        chk("null-check", bool(st_mem) and unchecked is None,
            "the allocator result reaches the store of self.mem without a null test (NonNull::new + unwrap / handle_alloc_error)", unchecked)
        # size := new on every normal path that changes anything
        st_size = [e for e in I.all_effects(("STORE",)) if e["path"] == (("P", 1), ("size",))]
        chk("size-update", bool(st_size) and all(as_poly(e["value"]) == new for e in st_size)
            and all(_not_after(I, e, x) for e in st_size for x in allocs + reallocs + deallocs),
            "self.size must be set to the new size after the allocator calls", st_size[0] if st_size else None)
        # ... on every normal path: a return without the update is only allowed when the size already equals the request
        for r in I.all_effects(("RETURN",)):
            def ok_at(g, st_size=st_size):
                if any(e.gid == g for e in st_size):
                    return True
                return implies(I.facts_at(g), ("eq0", _canon(size0 - new)))
            ok_ret = every_path_to(I, r.gid, ok_at)
            chk("size-update-all-paths", bool(ok_ret), "resize returns without recording the new size although it differs from the current one "
                "(capacity() then disagrees with the request: with_capacity/reserve/shrink do not keep their promises)", r)
        for e in allocs + reallocs + deallocs:
            pass
    # bookkeeping follows the allocation: decided per case of the element size (the entry fact prunes the other branch)
    #   element size != 0: `self.size` is only rewritten on paths that went through the allocator (alloc / realloc / dealloc), so
    #                      element size x self.size stays the byte size of the live block (what realloc/dealloc present later)
    #   element size == 0: the allocator is never reached
    stride0 = Poly.atom(("lsize", ("init", (("P", 1), ("element_layout",)), 0)))
    for case, ef in (("nonzero", [("ne0", stride0)]), ("zero", [("eq0", stride0)])):
        for tt, I in ctx.arms(rp, entry_facts=ef) or []:
            res.inst(sample={"obligation": "size bookkeeping follows the allocation", "case": "element size " + case}, func=rp)
            acalls = I.all_effects(("ALLOC", "REALLOC", "DEALLOC", "ALLOC_OTHER"))
            agids = {e.gid for e in acalls}
            st_size = [e for e in I.all_effects(("STORE",)) if e["path"] == (("P", 1), ("size",))]
            bad = None
            if case == "nonzero":
                for e in st_size:
                    if not every_path_to(I, e.gid, lambda g: g in agids):
                        bad = e
                        break
                if bad is not None:
                    res.fail(rp, "size-follows-allocation", "self.size is rewritten on a path that did not resize the allocation: the recorded size no longer matches the live block, "
                             "so a later realloc/dealloc presents a layout the block was not allocated with", span=span_of_effect(bad))
                elif not st_size or not acalls:
                    res.fail(rp, "size-follows-allocation", "no allocator call / size update found for non-zero-sized elements", span=ctx.span_of(rp))
                else:
                    res.ok()
            else:
                if acalls:
                    res.fail(rp, "zst-no-allocator", "the allocator is reached although the element size is 0", span=span_of_effect(acalls[0]))
                else:
                    res.ok()
    # the allocator is reached through resize only (one owner of the allocation protocol): a function of the backend that calls the allocator is
    # either resize itself or a private helper all of whose callers are (so it is expanded into resize's graph and covered by the obligations above)
    callers = {}
    for f in fx.fn_list:
        for b in f["blocks"]:
            tm = b["term"]
            if tm["k"] == "call" and "indirect" not in tm["callee"]:
                callers.setdefault(tm["callee"]["path"], set()).add(f["path"])
    rp_raw = ctx.fn(rp)["path"] if ctx.fn(rp) else rp

    def only_via_resize(path, seen=()):
        if path == rp_raw:
            return True
        f = fx.fn(path)
        if f is None or path in seen or f.get("exported") or (f.get("vis") == "pub" and f.get("reachable")):
            return False
        cs = callers.get(path, set())
        return bool(cs) and all(only_via_resize(c, seen + (path,)) for c in cs)
    drop_raw = None
    for im in fx.impls_of("core::ops::Drop"):
        if im["self_ty"].get("path") == "mem::heap::HeapMem":
            drop_raw = fx.fn(im["items"][0]["path"])["path"] if fx.fn(im["items"][0]["path"]) else None
    for f in fx.fn_list:
        if not (f["path"].startswith("mem::heap") or f["path"].startswith("<mem::heap")) or f["path"].startswith(rp_raw):
            continue
        if drop_raw and f["path"] == drop_raw:
            continue      # the destructor's own dealloc is judged by `drop-releases`
        for b in f["blocks"]:
            tm = b["term"]
            if tm["k"] == "call" and "indirect" not in tm["callee"] and tm["callee"].get("crate") == "alloc" and tm["callee"]["name"] in ("alloc", "alloc_zeroed", "realloc", "dealloc"):
                res.inst(sample={"allocator_call_outside_resize": f["path"], "only_reached_through_resize": only_via_resize(f["path"])}, func=f["path"])
                if only_via_resize(f["path"]):
                    res.ok()
                    continue
                res.fail(f["path"], "allocator-call-site", "%s calls the allocator (%s) and is reachable other than through HeapMem::resize: the size/stride guards and layout "
                         "bookkeeping of resize do not cover it" % (f["path"], tm["callee"]["name"]), span="%s:%s" % (f["span"]["file"], tm.get("line")))
    # Drop releases the allocation: decided under `element size != 0` and `size != 0` (the only state that owns a block): every path through the
    # destructor passes a dealloc of exactly the live block - through resize(0) or directly
    dp = None
    for im in fx.impls_of("core::ops::Drop"):
        if im["self_ty"].get("path") == "mem::heap::HeapMem":
            dp = im["items"][0]["path"]
    res.inst(sample={"obligation": "Drop for HeapMem releases the allocation", "function": dp})
    okd = False
    why = "dropping HeapMem does not release its block: the allocation leaks"
    size0 = Poly.atom(("init", (("P", 1), ("size",)), 0))
    if dp:
        for tt, I in ctx.arms(dp, entry_facts=[("ne0", stride0), ("ne0", size0)]) or []:
            ds = I.all_effects(("DEALLOC",))
            rets = I.all_effects(("RETURN",))
            good = []
            for d in ds:
                l = d["layout"]
                lsz = as_poly(l[1]) if isinstance(l, tuple) and l[:1] == ("layout",) else None
                lal = l[2] if isinstance(l, tuple) and l[:1] == ("layout",) else None
                if lsz == stride0 * size0 and any(isinstance(a_, tuple) and a_[0] == "lalign" for a_ in as_poly(lal).atoms()) and "mem" in repr(d["ptr"]):
                    good.append(d)
                else:
                    why = "the destructor deallocates with layout %s / pointer %s, expected the live block (element size x size, element align) of self.mem" % (l, d["ptr"])
            if good and rets and all(every_path_to(I, r.gid, lambda g: any(g == d.gid for d in good)) for r in rets) and len(good) == len(ds) \
                    and not I.all_effects(("ALLOC", "REALLOC", "ALLOC_OTHER")):
                okd = True
    if okd:
        res.ok()
    else:
        res.fail(dp or "mem::heap::HeapMem", "drop-releases", why)
    # Heap::build allocates nothing
    for im in fx.impls_of("mem::MemBuilder"):
        if im["self_ty"].get("path") == "mem::heap::Heap":
            bp = [it["path"] for it in im["items"] if it["name"] == "build"][0]
            for tt, I in ctx.arms(bp) or []:
                res.inst(sample={"obligation": "Heap::build allocates nothing", "function": bp})
                tr = ret_tree(I) or {}
                if I.all_effects(("ALLOC", "REALLOC")) or tr.get(("size",)) != Poly():
                    res.fail(bp, "build-allocates", "a fresh heap backend must own no allocation and report size 0")
                else:
                    res.ok()
    # adopted allocations: a heap backend assembled around the buffer of a `Vec` (its pointer reaches HeapMem::mem) must record the Vec's CAPACITY as its
    # size - realloc/dealloc later present (element size x size) as the layout of the block, and the allocator was given capacity, not len
    for f in fx.fn_list:
        if f.get("kind") not in ("Fn", "AssocFn") or fx.fn(f["path"]) is not f or "alloc" not in f.get("crates", []):
            continue
        for tt, I in ctx.arms(f["path"]) or []:
            tr = ret_tree(I) or {}
            for k, v in tr.items():
                if k[-1:] != ("mem",) or "vec::Vec" not in repr(v) or not any(x in repr(v) for x in ("as_mut_ptr", "as_ptr", "as_non_null", "into_raw_parts", "leak")):
                    continue
                sz = tr.get(k[:-1] + ("size",))
                res.inst(sample={"obligation": "adopted Vec buffer keeps the Vec's capacity", "function": f["path"], "size_recorded": str(sz)[:80]}, func=f["path"])
                if sz is not None and "vec::Vec" in repr(sz) and "::capacity" in repr(sz) and "::len" not in repr(sz):
                    res.ok()
                else:
                    res.fail(f["path"], "adopted-allocation-size", "%s builds a heap backend around a Vec's buffer but records %s as its size: the block was allocated "
                             "for the Vec's capacity(), so a later realloc / dealloc presents a layout that is not the one it was allocated with"
                             % (f["path"], str(sz)[:80]), span=ctx.span_of(f["path"]))
    return res


def _not_after(I, a, b):
    """a is not followed by b"""
    return not _reach(I, a, b)


# ------------------------------------------------------------------------------------------------ R-ALIGN

def guaranteed_align(t, fx):
    k = t.get("k")
    if k in ("uint", "int") and t.get("name") in ("u8", "i8"):
        return 1
    if k == "bool":
        return 1
    if k == "array":
        return guaranteed_align(t["to"], fx)
    if k == "adt":
        if t["path"] in ("core::mem::MaybeUninit", "core::mem::ManuallyDrop", "core::cell::UnsafeCell"):
            args = [a for a in t.get("args", []) if a.get("k") not in ("region", "const")]
            return guaranteed_align(args[0], fx) if args else None
        a = fx.adts.get(t["path"])
        if a:
            ra = a["repr"].get("align")
            inner = [guaranteed_align(f["ty"], fx) for v in a["variants"] for f in v["fields"]]
            inner = [x for x in inner if x]
            m = max(inner) if inner else 1
            return max(ra or 1, m)
    return None


def r_align(ctx):
    res = RuleResult("R-ALIGN")
    fx = ctx.fx
    impls = [im for im in fx.impls_of("mem::Mem") if im["self_ty"].get("k") == "adt"]
    if len(impls) < (3 if "no-alloc" in ctx.config else 4):
        res.coverage_lost("mem::Mem", "expected the built-in backends, found %d Mem impls" % len(impls))
    builders = {}
    for im in fx.impls_of("mem::MemBuilder"):
        for it in im["items"]:
            if it["kind"].startswith("Type") or "ty" in it:
                if it["name"] == "Mem" and it.get("ty", {}).get("k") == "adt":
                    builders[it["ty"]["path"]] = im
    for im in impls:
        adt = im["self_ty"]["path"]
        items = {it["name"]: it["path"] for it in im["items"]}
        for m in ("as_ptr", "as_mut_ptr"):
            p = items.get(m)
            for tt, I in ctx.arms(p) or []:
                rets = I.all_effects(("RETURN",))
                v = rets[0]["value"] if rets else None
                res.inst(sample={"backend": adt, "method": m, "pointer": str(v)}, func=p)
                pp = ptr_parts(v)
                if pp and isinstance(pp[0], tuple) and pp[0][0] == "ADDR":
                    # dangling: address must be the element alignment
                    ats = [a for a in as_poly(pp[0][1]).atoms()]
                    if len(ats) == 1 and isinstance(ats[0], tuple) and ats[0][0] in ("lalign", "ALIGN", "ALIGNOF") and as_poly(pp[0][1]) == Poly.atom(ats[0]):
                        res.ok()
                    else:
                        res.fail(p, "dangling", "the placeholder pointer's address is %s, expected element_layout.align()" % pp[0][1], span=ctx.span_of(p))
                elif pp and isinstance(pp[0], tuple) and pp[0][0] == "FIELD":
                    fpath = pp[0][1]
                    fname = fpath[1][-1]
                    a = fx.adts.get(adt)
                    fty = [f["ty"] for vv in a["variants"] for f in vv["fields"] if f["name"] == fname]
                    ga = guaranteed_align(fty[0], fx) if fty else None
                    # does the builder bound the element alignment?
                    bound = _builder_align_bound(ctx, builders.get(adt))
                    if ga is not None and bound is not None and ga >= bound:
                        res.ok()
                    else:
                        res.fail(adt, "inline-storage-align:%s" % m,
                                 "storage pointer is the address of inline field `%s` whose type guarantees alignment %s, while build() admits element layouts of %s alignment: "
                                 "elements with a larger alignment are stored misaligned" % (fname, ga, "unbounded" if bound is None else bound), span=ctx.span_of(p))
                elif isinstance(v, tuple) and v and (v[0] == "init" or v[0] == "ref") or (pp and isinstance(pp[0], tuple) and pp[0][0] in ("PBASE",)):
                    # pointer held in a field: judged at its writers (allocator results with the element alignment, or dangling)
                    ok = _field_ptr_writers_aligned(ctx, adt, res)
                    if ok:
                        res.ok()
                    else:
                        res.fail(adt, "field-pointer:%s" % m, "the stored storage pointer is written from something other than an allocation with the element alignment or dangling()",
                                 span=ctx.span_of(p))
                else:
                    res.fail(p, "unknown-pointer", "cannot classify the storage pointer %s" % (v,), kind="coverage-lost")
    # pointer producers inside storage backends: only the allocator, dangling(layout), inline buffers and caller-supplied handles
    ALLOWED = ("alloc", "realloc", "alloc_zeroed", "new", "new_unchecked", "unwrap", "expect", "unwrap_or_else", "as_ptr", "as_mut_ptr", "cast", "dangling", "from",
               "as_ref", "as_mut", "add", "sub", "offset", "wrapping_add", "wrapping_sub", "wrapping_offset", "byte_add", "byte_sub", "cast_const", "cast_mut")
    work = []
    for f in fx.fn_list:
        in_backend = (f.get("impl_trait") or "").startswith("mem::Mem") or f["path"].startswith("mem::") or f["path"].startswith("<mem::")
        if in_backend:
            work.append(f)
    judged = {id(f) for f in work}
    while work:
        f = work.pop(0)
        for b in f["blocks"]:
            tm = b["term"]
            if tm["k"] != "call" or "indirect" in tm["callee"]:
                continue
            c = tm["callee"]
            dty = f["locals"][tm["dest"]["local"]] if not tm["dest"]["proj"] else None
            if dty is None:
                continue
            s = dty.get("s", "")
            is_ptr = dty.get("k") == "ptr" or s.startswith("core::ptr::NonNull<") or s.startswith("core::option::Option<core::ptr::NonNull<")
            if not is_ptr:
                continue
            lf = fx.fn(c["path"])
            if lf is not None and lf.get("blocks") and c["path"] != "mem::dangling":
                # a helper of this crate: it is judged by its own pointer producers (not by its name)
                res.inst(sample={"backend_fn": f["path"], "pointer_from_local_helper": c["path"]}, func=f["path"])
                res.ok()
                if id(lf) not in judged:
                    judged.add(id(lf))
                    work.append(lf)
                continue
            res.inst(sample={"backend_fn": f["path"], "pointer_from": c["path"]}, func=f["path"])
            if c["name"] in ALLOWED and not (c["path"] == "core::ptr::NonNull::<T>::dangling"):
                if c["name"] == "dangling" and c["path"] != "mem::dangling":
                    res.fail(f["path"], "pointer-source:" + c["name"], "storage pointer produced by %s, which is aligned for u8 only (use dangling(&element_layout))" % c["path"],
                             span="%s:%s" % (f["span"]["file"], tm.get("line")))
                else:
                    res.ok()
            else:
                res.fail(f["path"], "pointer-source:" + c["name"], "storage pointer produced by %s: not known to be aligned for the element type" % c["path"],
                         span="%s:%s" % (f["span"]["file"], tm.get("line")))
    # dangling() itself
    p = "mem::dangling"
    for tt, I in ctx.arms(p) or []:
        rets = I.all_effects(("RETURN",))
        v = rets[0]["value"] if rets else None
        res.inst(sample={"function": p, "returns": str(v)}, func=p)
        pp = ptr_parts(v)
        if pp and isinstance(pp[0], tuple) and pp[0][0] == "ADDR" and [a[0] for a in as_poly(pp[0][1]).atoms()] == ["lalign"]:
            res.ok()
        else:
            res.fail(p, "dangling", "dangling() must return a pointer whose address is layout.align(), got %s" % (v,), span=ctx.span_of(p))
    return res


def _builder_align_bound(ctx, im):
    """largest element alignment build() admits: a dominating assert on element_layout.align(), else None (unbounded)"""
    if im is None:
        return None
    for it in im["items"]:
        if it["name"] == "build":
            for tt, I in ctx.arms(it["path"]) or []:
                for r in I.all_effects(("RETURN",)):
                    for f in r["facts"]:
                        if f[0] == "ge0":
                            ats = [a for a in f[1].atoms() if isinstance(a, tuple) and a[0] in ("lalign",)]
                            if ats and f[1].m.get((ats[0],)) == -1:
                                c = f[1].m.get((), 0)
                                if c > 0 and len(f[1].m) == 2:
                                    return c
    return None


def _field_ptr_writers_aligned(ctx, adt, res):
    fx = ctx.fx
    ok = True
    found = 0
    for f in fx.fn_list:
        st = f.get("impl_self_ty", {})
        if st.get("path") != adt and not (f.get("sig", {}).get("output", {}).get("path") == adt):
            continue
        for tt, I in ctx.arms(f["path"], max_depth=2) or []:
            vals = []
            for e in I.all_effects(("STORE",)):
                if e["path"][1][-1:] == ("mem",) and e["path"][0] == ("P", 1):
                    vals.append(e["value"])
            tr = ret_tree(I) or {}
            if f.get("sig", {}).get("output", {}).get("path") == adt and ("mem",) in tr:
                vals.append(tr[("mem",)])
            for v in vals:
                found += 1
                pp = ptr_parts(v)
                if pp and isinstance(pp[0], tuple) and pp[0][0] in ("ADDR",):
                    continue
                if pp and isinstance(pp[0], tuple) and pp[0][0] == "ALLOC":
                    # the allocation's layout alignment is checked by R-HEAP (alloc-layout)
                    continue
                if isinstance(v, tuple) and v and v[0] in ("phi", "unwrap"):
                    continue      # join of the above (alloc / realloc / dangling)
                if isinstance(v, tuple) and v and v[0] == "call" and fx.fn(v[1]) is not None:
                    continue      # result of a helper of this crate beyond the inlining depth: judged by its own pointer producers (pointer-source clause)
                if v == ("param", 1) or (isinstance(v, tuple) and v[0] in ("param", "alias")):
                    continue      # from_raw_parts: caller-supplied handle (unsafe contract)
                ok = False
    return ok and found > 0


# ------------------------------------------------------------------------------------------------ R-ITER

def _inconsistent(facts):
    from ..interp import contradicts
    fs = frozenset(facts)
    return any(contradicts(fs - {f}, f) for f in fs if f and f[0] in ("eq0", "ne0", "ge0"))


def r_iter(ctx):
    res = RuleResult("R-ITER")
    fx = ctx.fx
    I0 = "<iter::Iter as core::iter::"
    idx0 = Poly.atom(("init", (("P", 1), ("index",)), 0))
    end0 = Poly.atom(("init", (("P", 1), ("end",)), 0))

    def yielded_slot(tr):
        for k, v in (tr or {}).items():
            if isinstance(v, tuple) and v and v[0] in ("ptr",):
                return slot_of(v)
            if isinstance(v, tuple) and v and v[0] == "some":
                pass
        return None

    for name, trait in (("next", "Iterator"), ("next_back", "DoubleEndedIterator")):
        p = I0 + trait + ">::" + name
        for tt, I in ctx.arms(p) or []:
            an = arm_name(tt)
            res.inst(sample={"function": p, "arm": an}, func=p)
            stores = [e for e in I.all_effects(("STORE",)) if e["path"][0] == ("P", 1)]
            rets = I.all_effects(("RETURN",))
            news = [e for e in I.all_effects(("ENTER",)) if e["callee"].startswith("element::ElementPointer") and e["callee"].endswith("::new")]
            ok = True
            if len(stores) != 1:
                res.fail(p, "cursor-store/%s" % an, "expected exactly one cursor update, found %d" % len(stores), span=ctx.span_of(p))
                continue
            s = stores[0]
            fld = "index" if name == "next" else "end"
            if s["path"][1] != (fld,):
                res.fail(p, "cursor-field/%s" % an, "%s updates `%s`, expected `%s`" % (name, ".".join(s["path"][1]), fld), span=span_of_effect(s))
                ok = False
            want = idx0 + Poly.const(1) if name == "next" else end0 - Poly.const(1)
            if as_poly(s["value"]) != want:
                res.fail(p, "cursor-step/%s" % an, "cursor becomes %s, expected %s" % (s["value"], want), span=span_of_effect(s))
                ok = False
            # guarded by index != end, nothing stored on the None path (fused)
            if not implies(s["facts"], ("ne0", _canon(idx0 - end0))):
                res.fail(p, "guard/%s" % an, "the cursor moves without a dominating index != end test (not fused / overruns)", span=span_of_effect(s))
                ok = False
            # yielded slot
            if not news:
                res.fail(p, "yield/%s" % an, "no element pointer is constructed", span=ctx.span_of(p))
                continue
            sl = slot_of(news[0]["args"][1]) if len(news[0]["args"]) > 1 else None
            wslot = idx0 if name == "next" else end0 - Poly.const(1)
            if not sl or sl[1] is None or sl[1] != wslot:
                res.fail(p, "slot/%s" % an, "%s yields slot %s, expected %s" % (name, sl[1] if sl else None, wslot), span=span_of_effect(news[0]))
                ok = False
            if not implies(news[0]["facts"], ("ne0", _canon(idx0 - end0))):
                res.fail(p, "yield-guard/%s" % an, "an element is yielded without index != end", span=span_of_effect(news[0]))
                ok = False
            if ok:
                res.ok()
    # every local exact-size iterator states its size: an `Iterator` impl without `size_hint` reports (0, None) while `len()` says otherwise
    # (`size_hint() == (len(), Some(len()))` is the ExactSizeIterator contract; std adaptors rely on it)
    for im in fx.impls_of("core::iter::ExactSizeIterator"):
        stp = im["self_ty"].get("path")
        if im["self_ty"].get("k") != "adt" or stp not in fx.adts:
            continue
        its = [i2 for i2 in fx.impls_of("core::iter::Iterator") if i2["self_ty"].get("path") == stp]
        res.inst(sample={"exact_size_iterator": stp, "iterator_impl_items": [it["name"] for i2 in its for it in i2["items"]]})
        if its and not any(it["name"] == "size_hint" for i2 in its for it in i2["items"]):
            res.fail(stp, "size_hint-missing", "`%s` implements ExactSizeIterator but its Iterator impl does not define size_hint: the default (0, None) contradicts len()" % stp,
                     span="%s:%s" % (its[0]["span"]["file"], its[0]["span"]["line"]))
        else:
            res.ok()
    # any further method of the cursor iterator (an override such as nth / nth_back / advance_by, or an inherent method): judged from the invariant
    # index <= end that the constructor establishes and next / next_back preserve. Every cursor update written by the method itself (updates inside an
    # inlined next / next_back are those judged above) keeps index0 <= cursor <= end0; every element it addresses itself lies in [index0, end0); the
    # std contract of nth / nth_back: a `None` result leaves the iterator exhausted (the default implementation consumed everything)
    inv = [cmp_fact("Le", idx0, end0)]
    judged_names = ("next", "next_back")
    for f in fx.fn_list:
        if f.get("kind") != "AssocFn" or f.get("impl_self_ty", {}).get("path") != "iter::Iter" or f.get("self_kind") not in ("ref", "mut") or fx.fn(f["path"]) is not f:
            continue
        if f.get("name") in ("next", "next_back", "size_hint", "len", "clone"):
            continue
        if not (ctx.is_public(f) or f.get("impl_trait")):
            continue          # a private helper: judged where it is expanded (in next / next_back or in a public method)
        p2 = f["path"]
        for tt, I in ctx.arms(p2, entry_facts=inv) or []:
            an = arm_name(tt)

            def own(e):
                i2 = e.node.inst
                while i2 is not None:
                    if i2.fn.get("name") in judged_names and i2.fn.get("impl_self_ty", {}).get("path") == "iter::Iter" and i2.parent is not None:
                        return False
                    i2 = i2.parent
                return True
            stores = [e for e in I.all_effects(("STORE",)) if e["path"][0] == ("P", 1) and e["path"][1] in (("index",), ("end",))]
            direct = [e for e in stores if own(e)]
            news = [e for e in I.all_effects(("ENTER",)) if e["callee"].startswith("element::ElementPointer") and e["callee"].endswith("::new") and own(e)]
            if not stores and not news:
                continue
            res.inst(sample={"extra_iterator_method": p2, "own_cursor_updates": len(direct), "cursor_updates_through_next": len(stores) - len(direct)}, func=p2)
            bad = None
            undecided = None
            for e in direct:
                v = as_poly(e["value"])
                if any(isinstance(a, tuple) and a and a[0] == "phi" for a in v.atoms()):
                    undecided = "cursor update %s := %s inside a loop" % (".".join(e["path"][1]), v)
                    continue
                if not (implies(e["facts"], cmp_fact("Le", idx0, v)) and implies(e["facts"], cmp_fact("Le", v, end0))):
                    bad = ("cursor-range", "`%s` sets %s := %s without index <= %s <= end being established (known: %s): the cursors cross or run past the range, so "
                           "len() wraps and further calls address slots outside it" % (f["name"], ".".join(e["path"][1]), v, v, fmt_facts(e["facts"]) or "index <= end"), e)
                    break
            for e in news if not bad else []:
                sl = slot_of(e["args"][1]) if len(e["args"]) > 1 else None
                if not sl or sl[1] is None or any(isinstance(a, tuple) and a and a[0] == "phi" for a in as_poly(sl[1]).atoms()):
                    undecided = "element addressed at %s" % (sl[1] if sl else "?")
                    continue
                if not (implies(e["facts"], cmp_fact("Le", idx0, sl[1])) and implies(e["facts"], cmp_fact("Lt", sl[1], end0))):
                    bad = ("slot-range", "`%s` yields slot %s without index <= slot < end being established (known: %s)" % (f["name"], sl[1], fmt_facts(e["facts"])), e)
                    break
            if not bad and f.get("name") in ("nth", "nth_back") and f.get("impl_trait"):
                ynodes = {e.gid for e in I.all_effects(("ENTER",)) if e["callee"].startswith("element::ElementPointer") and e["callee"].endswith("::new")}

                def exhausted_on_edge(p_, g_):
                    stt = I.out_states.get((p_, g_))
                    if stt is None:
                        return False
                    ic = as_poly(I.load(stt, (("P", 1), ("index",)), {"k": "uint"}))
                    ec = as_poly(I.load(stt, (("P", 1), ("end",)), {"k": "uint"}))
                    return ic == ec or implies(stt.facts, ("eq0", _canon(ic - ec))) or _inconsistent(stt.facts)
                for r in I.all_effects(("RETURN",)):
                    if not every_path_to(I, r.gid, lambda g: g in ynodes, ok_edge=exhausted_on_edge):
                        bad = ("none-not-exhausted", "`%s` can return without yielding an element while index is not known to equal end: the default implementation "
                               "would have consumed every element, so len() / size_hint still report elements and a later next() yields them after a None" % f["name"], r)
                        break
            if bad:
                res.fail(p2, "%s/%s" % (bad[0], an), bad[1], span=span_of_effect(bad[2]))
            else:
                res.ok()
                if undecided:
                    note = "%s: %s - not decided (loop), judged through the inlined next / next_back only" % (p2, undecided)
                    if note not in res.notes:
                        res.notes.append(note)
    # size_hint / len
    p = I0 + "Iterator>::size_hint"
    for tt, I in ctx.arms(p) or []:
        rets = I.all_effects(("RETURN",))
        v = rets[0]["value"] if rets else None
        tr = ret_tree(I) or {}
        res.inst(sample={"function": p, "returns": str(v)}, func=p)
        lo = tr.get(("0",))
        hi = tr.get(("1",))
        if isinstance(v, tuple) and v and v[0] == "pair":
            lo, hi = v[1], v[2]
        if lo == end0 - idx0 and hi == ("some", end0 - idx0):
            res.ok()
        else:
            res.fail(p, "size_hint", "size_hint returns (%s, %s), expected (end-index, Some(end-index))" % (lo, hi), span=ctx.span_of(p))
    p = I0 + "ExactSizeIterator>::len"
    for tt, I in ctx.arms(p) or []:
        rets = I.all_effects(("RETURN",))
        v = rets[0]["value"] if rets else None
        res.inst(sample={"function": p, "returns": str(v)}, func=p)
        if v == end0 - idx0:
            res.ok()
        else:
            res.fail(p, "len", "len returns %s, expected end-index" % (v,), span=ctx.span_of(p))
    # Clone copies the cursors field to field (independent iterators)
    p = "<iter::Iter as core::clone::Clone>::clone"
    for tt, I in ctx.arms(p) or []:
        tr = ret_tree(I) or {}
        res.inst(sample={"function": p, "tree": {".".join(k): str(v) for k, v in tr.items()}}, func=p)
        ok = tr.get(("index",)) == idx0 and tr.get(("end",)) == end0 and {s[1] for s in source_paths(tr.get(("any_vec_ptr",)))} == {("any_vec_ptr",)}
        if ok:
            res.ok()
        else:
            res.fail(p, "clone", "Iter::clone must copy any_vec_ptr, index and end field-wise", span=ctx.span_of(p))
    # every local iterator wrapper forwards each method to the same-named method of the inner iterator
    nwrap = 0
    for im in fx.impls:
        tr = im.get("trait") or ""
        if tr not in ("core::iter::Iterator", "core::iter::DoubleEndedIterator", "core::iter::ExactSizeIterator"):
            continue
        sp = im["self_ty"].get("path")
        if im["self_ty"].get("k") != "adt" or sp == "iter::Iter" or sp not in fx.adts:
            continue
        if sp != "ops::iter::Iter":
            # an iterator type of its own (not a wrapper): it forwards to nothing; only types that do call into an inner iterator are judged as wrappers
            wraps = False
            for it in im["items"]:
                if it["kind"].startswith("Fn"):
                    for tt, I in ctx.arms(it["path"]) or []:
                        if any(e["what"].startswith("iter-") for e in I.all_effects(("USER",))):
                            wraps = True
            if not wraps:
                continue
        for it in im["items"]:
            if not it["kind"].startswith("Fn"):
                continue
            p = it["path"]
            nwrap += 1
            for tt, I in ctx.arms(p) or []:
                us = [e for e in I.all_effects(("USER",)) if e["what"].startswith("iter-")]
                res.inst(sample={"wrapper": p, "forwards_to": [u["forwards"] for u in us]}, func=p)
                if len(us) == 1 and us[0]["forwards"] == it["name"]:
                    res.ok()
                else:
                    res.fail(p, "forward", "%s must forward to the inner iterator's `%s`, forwards to %s" % (it["name"], it["name"], [u["forwards"] for u in us]), span=ctx.span_of(p))
    if nwrap < 4:
        res.coverage_lost("ops::iter::Iter", "expected >= 4 forwarding iterator methods, found %d" % nwrap)
    # ElementIterator = DoubleEnded + ExactSize + Fused, implemented by the cursor iterator and the wrapper
    tr = fx.traits.get("iter::ElementIterator")
    res.inst(sample={"trait": "iter::ElementIterator", "super": tr and tr["super"]})
    need = ("DoubleEndedIterator", "ExactSizeIterator", "FusedIterator")
    if tr and all(any(n in s for s in tr["super"]) for n in need):
        res.ok()
    else:
        res.fail("iter::ElementIterator", "supertraits", "ElementIterator must require DoubleEndedIterator + ExactSizeIterator + FusedIterator")
    for adt in ("iter::Iter", "ops::iter::Iter"):
        have = {im["trait"].split("::")[-1] for im in fx.impls if im["self_ty"].get("path") == adt and im.get("trait", "") and im["trait"].startswith("core::iter::")}
        res.inst(sample={"type": adt, "iterator_traits": sorted(have)})
        if all(n in have for n in need + ("Iterator",)):
            res.ok()
        else:
            res.fail(adt, "iterator-traits", "%s implements %s, expected Iterator + %s" % (adt, sorted(have), ", ".join(need)))
    return res


def _canon(p):
    from ..interp import canon_sign
    return canon_sign(p)


# ------------------------------------------------------------------------------------------------ R-SIG

EXCLUSIVE_TYPES = ("element::ElementMut", "ops::temp::TempValue", "ops::iter::Iter", "any_vec::AnyVecMut")


def _is_exclusive_out(t):
    k = t.get("k")
    if k == "ref":
        return t.get("mut", False) or _is_exclusive_out(t["to"])
    if k == "adt":
        if t["path"] in EXCLUSIVE_TYPES:
            return True
        if t["path"] == "iter::Iter":
            return any("ElementMutIterItem" in a.get("s", "") for a in t.get("args", []))
        if t["path"] in ("core::option::Option", "core::slice::IterMut"):
            return t["path"] == "core::slice::IterMut" or any(_is_exclusive_out(a) for a in t.get("args", []) if a.get("k") != "region")
    if k == "slice":
        return False
    return False


def _has_mut_ref(t, depth=0):
    if not isinstance(t, dict) or depth > 6:
        return False
    if t.get("k") == "ref" and t.get("mut"):
        return True
    if t.get("k") in ("ref", "ptr", "slice", "array"):
        return _has_mut_ref(t.get("to"), depth + 1)
    return any(_has_mut_ref(a, depth + 1) for a in t.get("args", []) if isinstance(a, dict)) or any(_has_mut_ref(a, depth + 1) for a in t.get("elems", []))


def _shape(t):
    """type shape without regions: (path, [arg shapes]) ; type parameters are wildcards (None)"""
    if not isinstance(t, dict):
        return None
    k = t.get("k")
    if k == "adt":
        return (t["path"], tuple(_shape(a) for a in t.get("args", []) if a.get("k") != "region"))
    if k == "param":
        return None
    if k == "ref":
        return ("&mut" if t.get("mut") else "&", (_shape(t["to"]),))
    return (t.get("s"), ())


def _unify(a, b):
    if a is None or b is None:
        return True
    if a[0] != b[0] or len(a[1]) != len(b[1]):
        return False
    return all(_unify(x, y) for x, y in zip(a[1], b[1]))


def _shared_only(ctx, st):
    """the receiver type is a handle that only ever stands for a SHARED borrow of a vector: its shape is produced by some public `&self` method of the
    vector (directly, as an Option payload, as an iterator item or as a Deref target of such a type) and unifies with nothing a `&mut self` method produces"""
    cache = ctx.__dict__.setdefault("_shared_shapes", None)
    if cache is None:
        sh, ex = [], []
        fx = ctx.fx

        def outs(f):
            o = [f["sig"]["output"]]
            if f.get("output_iter_item"):
                o.append(f["output_iter_item"])
            r = []
            for t in o:
                while t.get("k") == "adt" and t["path"] == "core::option::Option":
                    t = next((a for a in t.get("args", []) if a.get("k") != "region"), t)
                    if t.get("path") == "core::option::Option":
                        continue
                    break
                r.append(t)
            return r
        for f in fx.fn_list:
            if f.get("kind") != "AssocFn" or not ctx.is_public(f) or f.get("impl_self_ty", {}).get("path") != "any_vec::AnyVec" or f.get("impl_trait"):
                continue
            if f.get("self_kind") == "ref":
                sh += [_shape(t) for t in outs(f) if t.get("k") == "adt"]
            elif f.get("self_kind") == "mut":
                ex += [_shape(t) for t in outs(f) if t.get("k") == "adt"]
        cache = ctx.__dict__["_shared_shapes"] = (sh, ex)
    sh, ex = cache
    me = _shape(st)
    if me is None or st.get("k") != "adt":
        return False
    a_ = ctx.fx.adts.get(st.get("path"))
    if a_ is None or not any(g["kind"] == "lifetime" for g in a_.get("generics", [])):
        return False          # not a borrowing handle (the vector itself, an owned value)
    return any(_unify(me, x) for x in sh) and not any(_unify(me, x) for x in ex)


def _has_region(t):
    s = t.get("s", "")
    return "'" in s or t.get("k") == "ref" or "&" in s


def tcx_normalize(ctx, f, out):
    """associated-type outputs (`<&'a AnyVec as IntoIterator>::IntoIter`) resolved through the impl's items"""
    if out.get("k") != "alias":
        return out
    name = out["path"].rsplit("::", 1)[-1]
    for im in ctx.fx.impls:
        if any(it["path"] == f["path"] for it in im["items"]):
            for it in im["items"]:
                if it["name"] == name and "ty" in it:
                    return it["ty"]
    return out


def r_sig(ctx):
    res = RuleResult("R-SIG")
    fx = ctx.fx
    exported_traits = {a["path"] for a in fx.api if a["kind"] == "Trait" and a["exported"]}
    n = 0
    for f in fx.fn_list:
        if f.get("kind") != "AssocFn" or not ctx.is_public(f) or f.get("self_kind") not in ("ref", "mut"):
            continue
        sig = f["sig"]
        out = sig["output"]
        free = sig.get("output_free_regions", [])
        bound = sig.get("output_bound_regions", [])
        if not free and not bound:
            continue
        # a handle type that only ever stands for a SHARED borrow of the vector (and can be copied) never hands out exclusive access, whatever the
        # receiver: `impl IndexMut / AsMut / BorrowMut for AnyVecRef` would turn a shared view into `&mut T`
        st0 = f.get("impl_self_ty", {})
        if f["self_kind"] == "mut" and (_has_mut_ref(out) or _is_exclusive_out(out)) and _shared_only(ctx, st0) \
                and any(im["self_ty"].get("path") == st0.get("path") for im in fx.impls_of("core::clone::Clone")):
            n += 1
            res.inst(sample={"method": f["path"], "receiver": "&mut " + st0.get("s", ""), "output": out["s"]}, func=f["path"])
            res.fail(f["path"], "shared-view-yields-exclusive", "%s gives exclusive access (%s) out of %s, a handle that only stands for a shared borrow of the vector and "
                     "can be cloned: two clones yield two `&mut` to the same element, and the vector itself is only shared-borrowed" % (f["path"], out["s"], st0.get("s")),
                     span=ctx.span_of(f["path"]))
            continue
        if f.get("impl_trait") and f["impl_trait"].startswith("core::") and f["impl_trait"] not in ("core::iter::IntoIterator",):
            continue
        if f.get("impl_trait") and not f["impl_trait"].startswith("core::") and f["impl_trait"] not in exported_traits:
            continue      # crate-private trait: not callable by users
        if f.get("impl_self_ty", {}).get("s") == sig["inputs"][0].get("s"):
            # `self` by value whose type happens to be a reference (IntoIterator for &'a AnyVec): the output is tied to Self;
            # but an exclusive handle must not come out of a shared reference
            n += 1
            res.inst(sample={"method": f["path"], "receiver": "self: " + sig["inputs"][0].get("s", ""), "output": out["s"]}, func=f["path"])
            out_n = tcx_normalize(ctx, f, out)
            if not sig["inputs"][0].get("mut") and _is_exclusive_out(out_n):
                res.fail(f["path"], "shared-receiver-exclusive-handle", "`self: %s` (a shared reference) yields an exclusive handle (%s)" % (sig["inputs"][0]["s"], out_n["s"]),
                         span=ctx.span_of(f["path"]))
            else:
                res.ok()
            continue
        n += 1
        p = f["path"]
        res.inst(sample={"method": p, "receiver": f["self_kind"], "output": out["s"], "impl_level_regions": free}, func=p)
        ok = True
        if _is_exclusive_out(out) and f["self_kind"] != "mut":
            res.fail(p, "shared-receiver-exclusive-handle", "returns an exclusive handle (%s) from `&self`: two such handles can coexist" % out["s"], span=ctx.span_of(p))
            ok = False
        if free and not f.get("unsafe"):
            # impl-level lifetime in the output: the result is not tied to the borrow of the receiver. That is sound only for a receiver that is itself a
            # SHARED handle (copying a shared borrow out of a shared borrow), never for one that may be exclusive
            recv_free = sig.get("input_regions", [{}])[0].get("free", []) if sig.get("input_regions") else []
            st = f.get("impl_self_ty", {})
            tied = (all(r in recv_free for r in free) and _shared_only(ctx, st) and not _is_exclusive_out(out) and not _has_mut_ref(out))
            # ... or the lifetime is the receiver's own borrow, spelled out (`fn find<'a>(&'a self, ..) -> Option<ElementRef<'a>>` with 'a early-bound
            # because a where-clause mentions it): the result is tied to the borrow of `self` exactly as with an elided lifetime
            recv_ref_region = sig["inputs"][0].get("region") if sig["inputs"] and sig["inputs"][0].get("k") == "ref" else None
            if not tied and recv_ref_region is not None and all(r == recv_ref_region for r in free):
                tied = True
            if tied:
                res.samples.append({"method": p, "receiver": st.get("s"), "verdict": "shared-only receiver: impl-level lifetime is the shared borrow it was built from"}) \
                    if len(res.samples) < 8 else None
            if not tied:
                res.fail(p, "detached-lifetime", "the returned %s carries the impl-level lifetime %s instead of the borrow of `%sself`: it outlives / coexists with "
                         "later exclusive uses of the same view" % (out["s"], ",".join(free), "&mut " if f["self_kind"] == "mut" else "&"), span=ctx.span_of(p))
                ok = False
        if ok:
            res.ok()
    # (2a) callbacks: a method that takes `&mut self` and hands handles to a caller-supplied closure must quantify the handle's lifetime inside the closure
    # bound (`F: for<'x> FnMut(ElementRef<'x>)`); with a lifetime of the method itself (`F: FnMut(ElementRef<'a>)`, `&'a mut self`) the closure can store the
    # handle and read it after the method has moved or destroyed the element
    import re as _re
    for f in fx.fn_list:
        if f.get("kind") not in ("AssocFn", "Fn") or not ctx.is_public(f) or f.get("unsafe") or fx.fn(f["path"]) is not f:
            continue
        sig = f.get("sig")
        if not sig or not any(t.get("k") == "ref" and t.get("mut") for t in sig["inputs"]):
            continue
        for pred in f.get("where", []):
            m = _re.match(r"^(?:for<([^>]*)> )?\w+: (?:core::ops::)?(?:FnMut|Fn|FnOnce)\((.*)\)$", pred)
            if not m:
                continue
            bound = set(x.strip() for x in (m.group(1) or "").split(",") if x.strip())
            used = set(_re.findall(r"'\w+", m.group(2)))
            esc = sorted(r for r in used if r not in bound and r != "'static")
            res.inst(sample={"function": f["path"], "callback_bound": pred, "regions_not_bound_by_the_closure": esc}, func=f["path"])
            if esc:
                res.fail(f["path"], "callback-argument-outlives-call", "%s takes `&mut` access and passes its callback an argument whose type mentions %s, a lifetime of "
                         "the function rather than of the closure bound (`for<'x> ...`): the closure may keep the argument after the call moved or destroyed what "
                         "it refers to" % (f["path"], ", ".join(esc)), span=ctx.span_of(f["path"]))
            else:
                res.ok()
    # (2b) constructors of borrowing values: every impl-level lifetime in the output must occur in some input type, otherwise the caller may pick it
    # freely and the result is not tied to anything it was built from (`fn new(value: &T) -> LazyClone<'a, T>`)
    for f in fx.fn_list:
        if f.get("kind") not in ("AssocFn", "Fn") or not ctx.is_public(f) or not f.get("exported") or f.get("unsafe") or fx.fn(f["path"]) is not f:
            continue      # only functions a user can name (exported through a public path); crate-internal constructors get their lifetime from the public method
        sig = f["sig"]
        free = sig.get("output_free_regions", [])
        if not free or f.get("self_kind") in ("ref", "mut"):
            continue
        in_free = set()
        for r in sig.get("input_regions", []):
            in_free |= set(r.get("free", []))
        res.inst(sample={"function": f["path"], "output": sig["output"]["s"], "impl_level_regions": free, "input_regions": sorted(in_free)}, func=f["path"])
        loose = [r for r in free if r not in in_free and "static" not in r]
        if loose:
            res.fail(f["path"], "unconstrained-output-lifetime", "the returned %s carries lifetime %s, which occurs in no argument type: the caller chooses it, so the "
                     "result does not keep its source borrowed" % (sig["output"]["s"], ",".join(x.split("/")[0] for x in loose)), span=ctx.span_of(f["path"]))
        else:
            res.ok()
    # (3) iterators over exclusive handles are not Clone
    for im in fx.impls_of("core::clone::Clone"):
        if im["self_ty"].get("path") == "iter::Iter":
            # Clone for Iter<.., IterItem: Clone>: the marker for exclusive items must not be Clone
            for im2 in fx.impls_of("core::clone::Clone"):
                if im2["self_ty"].get("path") == "iter::ElementMutIterItem":
                    res.inst(sample={"impl": "Clone for IterMut (via ElementMutIterItem: Clone)"})
                    res.fail("iter::Iter", "exclusive-iterator-clone", "IterMut is Clone (ElementMutIterItem: Clone): two iterators yield ElementMut to the same elements",
                             span="%s:%s" % (im2["span"]["file"], im2["span"]["line"]))
    for adt in ("element::ElementMut", "ops::temp::TempValue", "element::ElementPointer", "any_vec::AnyVecMut", "any_vec_typed::AnyVecTyped"):
        res.inst(sample={"type": adt, "check": "exclusive handle is not Clone"})
        if any(im["self_ty"].get("path") == adt for im in fx.impls_of("core::clone::Clone")) or any(im["self_ty"].get("path") == adt for im in fx.impls_of("core::marker::Copy")):
            res.fail(adt, "exclusive-handle-clone", "%s implements Clone/Copy" % adt)
        else:
            res.ok()
    if n < 30:
        res.coverage_lost("<crate>", "expected >= 30 public methods with borrowed outputs, found %d" % n)
    return res


# ------------------------------------------------------------------------------------------------ R-CONFIG (needs two configurations)

def _strip(x):
    """structural form of a body: drop line numbers / expansion flags"""
    if isinstance(x, dict):
        return {k: _strip(v) for k, v in x.items() if k not in ("line", "expn", "span", "end_line")}
    if isinstance(x, list):
        return [_strip(v) for v in x]
    return x


def body_hash(f):
    s = json.dumps(_strip({"locals": [t["s"] for t in f["locals"]], "blocks": f["blocks"]}), sort_keys=True)
    return hashlib.sha256(s.encode()).hexdigest()[:16]


def r_config(ctxs):
    res = RuleResult("R-CONFIG")
    d = ctxs.get("default")
    n = ctxs.get("no-alloc")
    if d is None or n is None:
        res.coverage_lost("<crate>", "R-CONFIG needs the default and the no-alloc fact files")
        return res
    # (a) the no-alloc build type-checks (fact file exists) and links only core
    ex = set(n.fx.crate["extern_crates"])
    res.inst(sample={"no_alloc_extern_crates": sorted(ex), "no_std": n.fx.crate["no_std"]})
    if ex - {"core", "compiler_builtins", "rustc_std_workspace_core"}:
        res.fail("<crate>", "extern-crates", "built without default features the crate still links %s" % sorted(ex - {"core", "compiler_builtins"}))
    else:
        res.ok()
    res.inst(sample={"attribute": "#![no_std]", "default": d.fx.crate["no_std"], "no_alloc": n.fx.crate["no_std"]})
    if not (d.fx.crate["no_std"] and n.fx.crate["no_std"]) or "std" in ex or "std" in d.fx.crate["extern_crates"]:
        res.fail("<crate>", "no_std", "the crate is not #![no_std] in both configurations")
    else:
        res.ok()
    res.inst(sample={"feature_alloc_in_no_alloc_cfg": "feature=alloc" in n.fx.crate["cfg"]})
    if "feature=alloc" in n.fx.crate["cfg"] or "feature=alloc" not in d.fx.crate["cfg"]:
        res.fail("<crate>", "feature-gate", "the alloc feature is not what distinguishes the two configurations")
    else:
        res.ok()
    # (b) API surface: no-alloc = default - mem::heap
    da = {(a["path"], a["kind"]) for a in d.fx.api}
    na = {(a["path"], a["kind"]) for a in n.fx.api}
    only_d = sorted(da - na)
    only_n = sorted(na - da)
    res.inst(sample={"api_items_default": len(da), "api_items_no_alloc": len(na), "only_in_default": [p for p, k in only_d][:8]})
    def heap_specific(p):
        """part of the heap backend, or an operation that by its signature exists only for heap-backed vectors / alloc types (it cannot be offered without alloc)"""
        if p.startswith("mem::heap") or p.startswith("<mem::heap"):
            return True
        f = d.fn(p)
        if f is None or "sig" not in f:
            # an associated type / const of an impl: heap-specific when its impl header is (`<impl TryFrom<AnyVec<_, Heap>> for Vec<T>>::Error`)
            return "alloc::" in p or "mem::heap" in p or ("AnyVec<" in p and "impl" in p and any(
                ("alloc::" in (im.get("trait_ref") or "") or "alloc::" in im["self_ty"].get("s", "")) and any(it["path"] == p for it in im["items"]) for im in d.fx.impls))
        mention = " ".join([f.get("impl_self_ty", {}).get("s", ""), f.get("impl_trait_ref", "") or "", f["sig"].get("s", "")])
        if "mem::heap::" in mention or "alloc::" in mention:
            return True
        return any(_heap_only_item({"impl_self_ty": t}) for t in [f.get("impl_self_ty"), f["sig"]["output"]] + list(f["sig"]["inputs"]))
    badd = [p for p, k in only_d if not heap_specific(p)]
    heap_in_n = [p for p, k in na if p.startswith("mem::heap") or p.startswith("<mem::heap")]
    if badd:
        res.fail(badd[0], "api-missing-without-alloc", "public item %s exists only with the alloc feature although it is not part of the heap backend" % badd[0])
    elif only_n:
        res.fail(only_n[0][0], "api-only-without-alloc", "public item %s exists only without the alloc feature" % only_n[0][0])
    elif heap_in_n:
        res.fail(heap_in_n[0], "heap-without-alloc", "the heap backend is offered without the alloc feature")
    elif not [p for p, k in only_d if p.startswith("mem::heap")]:
        res.fail("mem::heap", "heap-missing", "the default configuration offers no heap backend (anchor lost)", kind="coverage-lost")
    else:
        res.ok()
    # impl surface (trait impls of public types)
    di = {(im.get("trait_ref") or "", im["self_ty"]["s"]) for im in d.fx.impls if not _heap_only_item({"impl_self_ty": im["self_ty"]})}
    ni = {(im.get("trait_ref") or "", im["self_ty"]["s"]) for im in n.fx.impls}
    diff = sorted(x for x in (di ^ ni) if "mem::heap" not in x[0] and "mem::heap" not in x[1] and "alloc::" not in x[0] and "alloc::" not in x[1])
    res.inst(sample={"impls_default": len(di), "impls_no_alloc": len(ni), "unexplained_difference": diff[:4]})
    if diff:
        res.fail(diff[0][1], "impl-surface", "impl `%s for %s` exists in only one configuration" % diff[0])
    else:
        res.ok()
    # (c) every body present in both configurations is the same code
    dh = {f["path"]: body_hash(f) for f in d.fx.fn_list}
    nh = {f["path"]: body_hash(f) for f in n.fx.fn_list}
    common = sorted(set(dh) & set(nh))
    nbad = 0
    for p in common:
        res.inst(sample={"body": p, "hash_default": dh[p], "hash_no_alloc": nh[p]} if p.endswith("::push") else None)
        if dh[p] == nh[p]:
            res.ok()
        else:
            nbad += 1
            if nbad <= 5:
                res.fail(p, "body-differs", "the body of %s differs between the default and the no-alloc build: behaviour depends on the alloc feature" % p,
                         span=d.span_of(p))
    missing = sorted(p for p in set(dh) - set(nh) if not heap_specific(p))
    res.inst(sample={"bodies_common": len(common), "bodies_only_default": len(set(dh) - set(nh)), "non_heap_missing": missing[:4]})
    if missing:
        res.fail(missing[0], "body-missing-without-alloc", "%s is compiled only with the alloc feature" % missing[0], span=d.span_of(missing[0]))
    else:
        res.ok()
    extra = sorted(set(nh) - set(dh))
    if extra:
        res.fail(extra[0], "body-only-without-alloc", "%s is compiled only without the alloc feature" % extra[0])
    # the default backend alias
    da_ = d.fx.aliases.get("mem::Default", {}).get("ty", {}).get("s")
    na_ = n.fx.aliases.get("mem::Default", {}).get("ty", {}).get("s")
    res.inst(sample={"mem::Default (default)": da_, "mem::Default (no-alloc)": na_})
    if da_ and "heap" in da_ and na_ and "heap" not in na_:
        res.ok()
    else:
        res.fail("mem::Default", "default-backend", "default backend alias is %s / %s" % (da_, na_))
    return res


# ------------------------------------------------------------------------------------------------ R-STACKCAP

def r_stackcap(ctx):
    """capacities of the fixed backends: Stack<SIZE> = SIZE / element size (usize::MAX for zero-sized), StackN<N,SIZE> = N with N*size <= SIZE checked at build"""
    res = RuleResult("R-STACKCAP")
    fx = ctx.fx
    builds = {}
    for im in fx.impls_of("mem::MemBuilder"):
        st = im["self_ty"].get("path")
        for it in im["items"]:
            if it["name"] == "build":
                builds[st] = it["path"]
    sizes = {}
    for im in fx.impls_of("mem::Mem"):
        st = im["self_ty"].get("path")
        for it in im["items"]:
            if it["name"] == "size":
                sizes[st] = it["path"]
    # Stack
    bp = builds.get("mem::stack::Stack")
    if not bp:
        res.coverage_lost("mem::stack::Stack", "MemBuilder::build not found")
    # decided per case of the element size: one interpretation under `element size != 0`, one under `element size == 0`
    # (branches are pruned by the entry fact, so the recorded capacity is a single term in each case)
    esz = Poly.atom(("lsize", ("init", (("A", 2), ()), 0)))
    SIZE = Poly.atom(("cparam", "SIZE"))
    for case, ef, want, what in (("nonzero", [("ne0", esz)], Poly.atom(("div", SIZE, esz)), "SIZE / element_layout.size()"),
                                 ("zero", [("eq0", esz)], Poly.const(2 ** 64 - 1), "usize::MAX")):
        for tt, I in ctx.arms(bp, entry_facts=ef) or [] if bp else []:
            res.inst(sample={"function": bp, "case": "element size " + case, "check": "capacity = " + what}, func=bp)
            ok = True
            rets = I.all_effects(("RETURN",))
            if not rets:
                res.fail(bp, "capacity:" + case, "build() never returns when the element size is %s" % case, span=ctx.span_of(bp))
                continue
            tr = ret_tree(I) or {}
            got = tr.get(("size",))
            if not isinstance(got, Poly) or got != want:
                key = "capacity" if case == "nonzero" else "zero-size-capacity"
                res.fail(bp, key, "with element size %s the recorded capacity is %s, expected %s" % (case, got, what), span=ctx.span_of(bp))
                ok = False
            if not (isinstance(tr.get(("element_layout",)), tuple) and tr[("element_layout",)][:1] == ("alias",) and tr[("element_layout",)][1][0] == ("A", 2)):
                res.fail(bp, "layout", "the storage does not record the requested element layout", span=ctx.span_of(bp))
                ok = False
            if ok:
                res.ok()
    # the storage pointer of the inline backends is the start of the inline buffer: the capacities above are computed for the whole buffer, so any
    # offset into it (an alignment fix-up, a header) makes the last elements lie beyond the buffer
    for im in fx.impls_of("mem::Mem"):
        adt = im["self_ty"].get("path")
        if adt not in ("mem::stack::StackMem", "mem::stack_n::StackNMem"):
            continue
        for it in im["items"]:
            if it["name"] not in ("as_ptr", "as_mut_ptr"):
                continue
            for tt, I in ctx.arms(it["path"]) or []:
                rets = I.all_effects(("RETURN",))
                v = rets[0]["value"] if rets else None
                pp = ptr_parts(v)
                res.inst(sample={"backend": adt, "method": it["name"], "pointer": str(v)}, func=it["path"])
                if pp and isinstance(pp[0], tuple) and pp[0][0] == "FIELD" and not pp[1].m:
                    res.ok()
                else:
                    res.fail(it["path"], "storage-offset", "the storage pointer of an inline backend is %s, expected the start of the inline buffer (offset 0): "
                             "the capacity is computed for the whole buffer, elements at the end would lie outside it" % (v,), span=ctx.span_of(it["path"]))
    sp = sizes.get("mem::stack::StackMem")
    for tt, I in ctx.arms(sp) or [] if sp else []:
        rets = I.all_effects(("RETURN",))
        v = rets[0]["value"] if rets else None
        res.inst(sample={"function": sp, "returns": str(v)}, func=sp)
        if isinstance(v, Poly) and [a[0] for a in v.atoms()] == ["init"] and list(v.atoms())[0][1][1] == ("size",):
            res.ok()
        else:
            res.fail(sp, "size", "StackMem::size must report the capacity computed at build, returns %s" % (v,), span=ctx.span_of(sp))
    # StackN
    sp = sizes.get("mem::stack_n::StackNMem")
    for tt, I in ctx.arms(sp) or [] if sp else []:
        rets = I.all_effects(("RETURN",))
        v = rets[0]["value"] if rets else None
        res.inst(sample={"function": sp, "returns": str(v)}, func=sp)
        if v == Poly.atom(("cparam", "N")):
            res.ok()
        else:
            res.fail(sp, "size", "StackNMem::size must be N, returns %s" % (v,), span=ctx.span_of(sp))
    bp = builds.get("mem::stack_n::StackN")
    if not bp:
        res.coverage_lost("mem::stack_n::StackN", "MemBuilder::build not found")
    # ... and so does every other function that assembles a StackNMem itself (a sizeable-builder impl, a conversion): the struct literal is the construction
    makers = [bp] if bp else []
    for f in fx.fn_list:
        if f["path"] in makers or fx.fn(f["path"]) is not f:
            continue
        if any("rv" in st_ and st_["rv"].get("k") == "agg" and st_["rv"].get("adt") == "mem::stack_n::StackNMem" for b in f.get("blocks", []) for st_ in b["stmts"]):
            makers.append(f["path"])
    for bp in makers:
      for tt, I in ctx.arms(bp) or []:
        res.inst(sample={"function": bp, "check": "construction panics unless N x element size <= SIZE"}, func=bp)
        rets = I.all_effects(("RETURN",))
        ok = False
        N, SZ = Poly.atom(("cparam", "N")), Poly.atom(("cparam", "SIZE"))
        for r in rets:
            for f in r["facts"]:
                if f[0] == "ge0":
                    p = f[1]
                    ls = [a for a in p.atoms() if isinstance(a, tuple) and a[0] == "lsize"]
                    if ls and p == SZ - N * Poly.atom(ls[0]):
                        ok = True
        if ok and rets:
            res.ok()
        else:
            res.fail(bp, "fits-check", "%s assembles StackN storage without establishing N x element size <= SIZE before returning: size() reports N slots over a "
                     "buffer that holds fewer" % bp, span=ctx.span_of(bp))
    return res


# ------------------------------------------------------------------------------------------------ R-NOLEAK

def storage_owners(ctx):
    """local ADTs whose destructor releases storage (and, for the vector, its elements): a Drop impl that reaches the allocator, a field of an
    abstract backend type (`<M as MemBuilder>::Mem`), or a field of such an owner by value"""
    fx = ctx.fx
    owners = set()
    for im in fx.impls_of("core::ops::Drop"):
        st = im["self_ty"]
        if st.get("k") != "adt" or st["path"] not in fx.adts:
            continue
        for it in im["items"]:
            for tt, I in ctx.arms(it["path"]) or []:
                if I.all_effects(("DEALLOC", "REALLOC")):
                    owners.add(st["path"])

    def owns(t, depth=0):
        if depth > 6:
            return False
        k = t.get("k")
        if k == "alias" and t.get("path", "").endswith("MemBuilder::Mem"):
            return True
        if k == "adt":
            if t["path"] in owners:
                return True
            if t["path"] in ("core::mem::ManuallyDrop", "core::mem::MaybeUninit"):
                return False
        if k in ("tuple",):
            return any(owns(e, depth + 1) for e in t.get("elems", []))
        if k == "array":
            return owns(t["to"], depth + 1)
        return False
    changed = True
    while changed:
        changed = False
        for path, a in fx.adts.items():
            if path in owners:
                continue
            if any(owns(f["ty"]) for v in a["variants"] for f in v["fields"]):
                owners.add(path)
                changed = True
    return owners, owns


def _reassembles_parameter(ctx, f, tm, owns):
    args = tm.get("args", [])
    if not args:
        return False
    op = args[0]
    pl = op.get("move") or op.get("copy")
    if not pl or pl.get("proj"):
        return False
    loc = pl.get("local", 0)
    if not (1 <= loc <= f.get("arg_count", 0)):
        # a temporary the parameter was moved into (`_3 = move _1; ManuallyDrop::new(move _3)`)
        src = None
        for b in f["blocks"]:
            for st_ in b["stmts"]:
                d = st_.get("dst")
                if d and d.get("local") == loc and not d.get("proj") and st_.get("rv", {}).get("k") == "use":
                    a0 = (st_["rv"].get("args") or [{}])[0]
                    p0 = a0.get("move") or a0.get("copy") if isinstance(a0, dict) else None
                    if p0 and not p0.get("proj"):
                        src = p0.get("local")
        if src is None or not (1 <= src <= f.get("arg_count", 0)):
            return False
    out = f.get("sig", {}).get("output", {})
    if not owns(out):
        return False
    for tt, I in ctx.arms(f["path"]) or []:
        if I.all_effects(("USER", "CLONE", "CLONE_INTO", "DESTROY", "MOVE_INTO", "RESERVE", "BUILD")):
            return False
        if any(not str(e.get("what", "")).startswith("<") or "clone_type::CloneType" not in str(e.get("trait", "")) for e in I.all_effects(("UNKNOWN",))):
            return False
    return True


def r_noleak(ctx):
    """drop suppression of storage owners: ManuallyDrop::new / mem::forget applied to a value that owns storage is allowed only where the storage is handed
    to the caller (the raw-parts decomposition); no owner is stored inside ManuallyDrop / MaybeUninit"""
    res = RuleResult("R-NOLEAK")
    fx = ctx.fx
    owners, owns = storage_owners(ctx)
    res.inst(sample={"storage_owners": sorted(owners)})
    if not {"any_vec_raw::AnyVecRaw", "any_vec::AnyVec"} <= owners:
        res.coverage_lost("<crate>", "the vector types are not recognised as storage owners (found %s)" % sorted(owners))
    else:
        res.ok()

    def hands_out_storage(f):
        """raw-parts decomposition: an item of an impl of mem::MemRawParts, or a function returning a struct that carries a MemRawParts::Handle"""
        if (f.get("impl_trait") or "").startswith("mem::MemRawParts") or (f.get("trait_item_of") or "").startswith("mem::MemRawParts"):
            return True

        def mentions_handle(t, depth=0):
            if depth > 5:
                return False
            if t.get("k") == "alias" and t.get("path", "").endswith("MemRawParts::Handle"):
                return True
            if t.get("k") == "adt":
                a = fx.adts.get(t["path"])
                if a and any(mentions_handle(fl["ty"], depth + 1) for v in a["variants"] for fl in v["fields"]):
                    return True
                return any(mentions_handle(x, depth + 1) for x in t.get("args", []) if isinstance(x, dict))
            if t.get("k") == "tuple":
                return any(mentions_handle(e, depth + 1) for e in t.get("elems", []))
            return False
        return mentions_handle(f.get("sig", {}).get("output", {}))
    SUPPRESS = {"core::mem::ManuallyDrop::<T>::new": "ManuallyDrop::new", "core::mem::forget": "mem::forget", "core::mem::MaybeUninit::<T>::new": "MaybeUninit::new"}
    for f in fx.fn_list:
        if fx.fn(f["path"]) is not f:
            continue
        for b in f["blocks"]:
            tm = b["term"]
            if tm["k"] != "call" or "indirect" in tm["callee"]:
                continue
            c = tm["callee"]
            how = SUPPRESS.get(c["path"])
            if not how:
                continue
            ga = [a for a in c.get("generic_args", []) if a.get("k") not in ("region", "const")]
            if not ga or not owns(ga[0]):
                continue
            res.inst(sample={"function": f["path"], "suppresses_drop_of": ga[0].get("s"), "through": how}, func=f["path"])
            if hands_out_storage(f):
                res.ok()
            elif _reassembles_parameter(ctx, f, tm, owns):
                # a by-value vector parameter is taken apart and its storage moved into the returned vector (a conversion between two vector types over
                # the same storage) with nothing in between that could unwind or run user code
                res.ok()
            else:
                res.fail(f["path"], "suppressed-drop:" + (ga[0].get("path") or ga[0].get("s", "?")).split("::")[-1],
                         "%s of a value of type %s, which owns storage (and elements): if this function unwinds or the value is not unwrapped on some path, the storage "
                         "is never released; only the raw-parts decomposition may take a vector apart" % (how, ga[0].get("s")),
                         span="%s:%s" % (f["span"]["file"], tm.get("line")))
    # type-level: an owner kept inside ManuallyDrop / MaybeUninit never runs its destructor
    for path, a in sorted(fx.adts.items()):
        for v in a["variants"]:
            for fl in v["fields"]:
                t = fl["ty"]
                if t.get("k") == "adt" and t["path"] in ("core::mem::ManuallyDrop", "core::mem::MaybeUninit"):
                    inner = [x for x in t.get("args", []) if isinstance(x, dict) and x.get("k") not in ("region", "const")]
                    if inner and owns(inner[0]):
                        res.inst(sample={"type": path, "field": fl["name"], "holds": t.get("s")})
                        res.fail(path, "field-suppresses-drop:" + fl["name"], "field `%s` keeps a storage owner (%s) inside %s: its destructor never runs"
                                 % (fl["name"], inner[0].get("s"), t["path"].split("::")[-1]))
    return res


# ------------------------------------------------------------------------------------------------ R-HANDLELIFE

def r_handlelife(ctx):
    """An element handle that destroys its element IN PLACE (through the slot address it stores) must not be able to outlive a handle whose destructor
    RELOCATES slots of the same vector: after the relocation the address names another element (destroyed twice) and the original is overwritten (never
    destroyed). The items of an `Iterator` can never borrow from the iterator itself, so a public operation whose result is an iterator with a relocating
    destructor (its own Drop impl or that of a field / type argument) and whose Item is such an in-place owner hands out exactly that combination."""
    res = RuleResult("R-HANDLELIFE")
    fx = ctx.fx
    relocating, inplace = {}, {}
    for im in fx.impls_of("core::ops::Drop"):
        st = im["self_ty"]
        if st.get("k") != "adt" or st["path"] not in fx.adts:
            continue
        for it in im["items"]:
            for tt, I in ctx.arms(it["path"]) or []:
                cp = [e for e in I.all_effects(("COPY",))]
                if cp:
                    relocating[st["path"]] = (it["path"], cp[0])
                ds = [e for e in I.all_effects(("DESTROY",))]
                if ds:
                    inplace[st["path"]] = (it["path"], ds[0])

    def mentions(t, depth=0, seen=None):
        """a relocating ADT inside the type: itself, a type argument, or a field (by value)"""
        seen = seen if seen is not None else set()
        if depth > 6:
            return None
        k = t.get("k")
        if k == "adt":
            if t["path"] in relocating:
                return t["path"]
            for a in t.get("args", []):
                if a.get("k") not in (None, "region"):
                    r = mentions(a, depth + 1, seen)
                    if r:
                        return r
            a = fx.adts.get(t["path"])
            if a and t["path"] not in seen:
                seen.add(t["path"])
                for v in a["variants"]:
                    for f in v["fields"]:
                        r = mentions(f["ty"], depth + 1, seen)
                        if r:
                            return r
        if k == "tuple":
            for e in t.get("elems", []):
                r = mentions(e, depth + 1, seen)
                if r:
                    return r
        return None

    n = 0
    for f in fx.fn_list:
        item = f.get("output_iter_item")
        if item is None or not ctx.is_public(f) or fx.fn(f["path"]) is not f:
            continue
        n += 1
        out = f["sig"]["output"]
        rel = mentions(out)
        owner = item.get("path") if item.get("k") == "adt" and item.get("path") in inplace else None
        res.inst(sample={"operation": f["path"], "returns": out["s"], "iterator_item": item["s"], "destructor_relocates_slots": rel, "item_destroys_in_place": bool(owner)},
                 func=f["path"])
        if rel and owner:
            res.fail(f["path"], "item-outlives-relocating-iterator",
                     "%s returns an iterator whose destructor (%s) moves elements to other slots, while its items (%s) destroy their element in place through the "
                     "slot address they keep (%s): an item can outlive the iterator (Iterator::Item cannot borrow from it), and then destroys whatever was moved "
                     "into its slot - that element is destroyed twice and the item's own element never"
                     % (f["path"], relocating[rel][0], item["s"], inplace[owner][0]), span=ctx.span_of(f["path"]))
        else:
            res.ok()
    # (b) a NON-owning wrapper around an in-place owner (`ManuallyDrop<owner>`: references to live elements) must not lend the owner out by `&mut`
    # when owned values of the same type can be obtained elsewhere (iterator items, returned handles): `mem::swap` then exchanges the two - the owned
    # handle now names the live element (destroyed while still in its vector, and again with it), the wrapper swallows the owned one (never destroyed)
    obtainable = {}
    for f in fx.fn_list:
        if not ctx.is_public(f) or f.get("unsafe") or fx.fn(f["path"]) is not f:
            continue
        cands = [f.get("output_iter_item"), f["sig"]["output"]] if "sig" in f else []
        for t in cands:
            while t is not None and t.get("k") == "adt" and t["path"] == "core::option::Option":
                t = next((a for a in t.get("args", []) if a.get("k") != "region"), None)
            if t is not None and t.get("k") == "adt" and t["path"] in inplace:
                obtainable.setdefault(t["path"], f["path"])

    def deref_target(w):
        for im in fx.impls_of("core::ops::Deref"):
            if im["self_ty"].get("path") == w:
                for it in im["items"]:
                    if it["name"] == "Target" and "ty" in it:
                        return it["ty"]
        return None
    for f in fx.fn_list:
        if f.get("kind") != "AssocFn" or f.get("self_kind") != "mut" or f.get("unsafe") or not ctx.is_public(f) or fx.fn(f["path"]) is not f:
            continue
        out = f["sig"]["output"]
        if out.get("k") != "ref" or not out.get("mut"):
            continue
        w = f.get("impl_self_ty", {})
        if w.get("k") != "adt" or w["path"] not in fx.adts:
            continue
        to = out["to"]
        if to.get("k") == "alias" and to.get("path") == "core::ops::Deref::Target":
            to = deref_target(w["path"]) or to
        if to.get("k") != "adt" or to["path"] not in inplace:
            continue
        wraps = any(fl["ty"].get("k") == "adt" and fl["ty"]["path"] == "core::mem::ManuallyDrop"
                    and any(a.get("k") == "adt" and a["path"] == to["path"] for a in fl["ty"].get("args", []))
                    for v in fx.adts[w["path"]]["variants"] for fl in v["fields"])
        res.inst(sample={"method": f["path"], "lends": "&mut " + to["s"], "receiver_wraps_it_in_ManuallyDrop": wraps, "owned_values_obtainable_from": obtainable.get(to["path"])},
                 func=f["path"])
        if wraps and to["path"] in obtainable:
            res.fail(f["path"], "non-owning-handle-lends-owner", "%s hands out `&mut %s` from a handle that only REFERS to a live element (it keeps the owner inside "
                     "ManuallyDrop), while owned values of that type are obtainable (%s): `mem::swap` exchanges them in safe code - the owned handle then destroys "
                     "the element that is still in its vector (destroyed again with the vector) and the referring handle swallows the owned one (never destroyed)"
                     % (f["path"], to["s"], obtainable[to["path"]]), span=ctx.span_of(f["path"]))
        else:
            res.ok()
    if not relocating or not inplace:
        res.coverage_lost("<crate>", "expected destructors that relocate slots (range handles) and destructors that destroy in place (owned element pointers); "
                          "found %d / %d" % (len(relocating), len(inplace)))
    return res


# ------------------------------------------------------------------------------------------------ R-TRAITSET

def r_traitset(ctx):
    """the declared constraint set of a vector never GROWS across a safe public function: a function that takes a vector (or a view / handle of one) with the
    concrete constraint set A and returns one with the concrete set B needs B's markers (Send, Sync, Cloneable) to be among A's - the elements were only
    checked against A when they were admitted"""
    res = RuleResult("R-TRAITSET")
    MARK = (("Send", "marker::Send"), ("Sync", "marker::Sync"), ("Cloneable", "traits::Cloneable"))

    def sets(t, out, depth=0):
        if not isinstance(t, dict) or depth > 6:
            return
        if t.get("k") == "adt" and t.get("path", "").split("::")[0] in ("any_vec", "element", "iter", "ops", "any_vec_typed"):
            for a in t.get("args", []):
                if a.get("k") == "dyn":
                    out.append((t["path"], frozenset(m for m, pat in MARK if pat in a.get("s", "")), a.get("s", "")))
        for a in t.get("args", []) if t.get("k") == "adt" else []:
            sets(a, out, depth + 1)
        if t.get("k") in ("ref", "ptr", "slice", "array"):
            sets(t.get("to"), out, depth + 1)
        for a in t.get("elems", []) if t.get("k") == "tuple" else []:
            sets(a, out, depth + 1)
    for f in ctx.fx.fn_list:
        if f.get("kind") not in ("Fn", "AssocFn") or not ctx.is_public(f) or f.get("unsafe") or ctx.fx.fn(f["path"]) is not f or "sig" not in f:
            continue
        ins, outs = [], []
        for t in f["sig"]["inputs"]:
            sets(t, ins)
        sets(f["sig"]["output"], outs)
        if not ins or not outs:
            continue
        res.inst(sample={"function": f["path"], "takes": [x[2] for x in ins][:2], "returns": [x[2] for x in outs][:2]}, func=f["path"])
        bad = [o for o in outs if not any(o[1] <= i[1] for i in ins)]
        if bad:
            gained = sorted(bad[0][1] - max(ins, key=lambda i: len(i[1] & bad[0][1]))[1])
            res.fail(f["path"], "constraint-set-grows:" + "+".join(gained), "%s turns a vector declared with %s into one declared with %s: the result claims %s although "
                     "the elements were never required to satisfy it (e.g. a vector of Cell<u32> becomes shareable between threads)"
                     % (f["path"], ins[0][2], bad[0][2], ", ".join(gained)), span=ctx.span_of(f["path"]))
        else:
            res.ok()
    # (b) a safe public function that MAKES a vector of element type T (the type id it records is TypeId::of::<T>() of one of its own type parameters) and
    # returns it with a constraint-set parameter must demand `T: SatisfyTraits<Traits>`: that bound is what rejects an element type lacking a declared
    # constraint at compile time (a weaker bound admits Rc into a `dyn Send` vector)
    for f in ctx.fx.fn_list:
        if f.get("kind") not in ("Fn", "AssocFn") or not ctx.is_public(f) or f.get("unsafe") or ctx.fx.fn(f["path"]) is not f or "sig" not in f:
            continue
        out = f["sig"]["output"]
        while out.get("k") == "adt" and out.get("path") in ("core::option::Option", "core::result::Result"):
            out = next((a for a in out.get("args", []) if a.get("k") != "region"), {})
        if out.get("k") != "adt" or out.get("path") != "any_vec::AnyVec":
            continue
        targs = [a for a in out.get("args", []) if a.get("k") != "region"]
        if not targs or targs[0].get("k") not in ("param", "dyn"):
            continue
        tps = {g["name"] for g in f.get("generics", []) if g.get("kind") == "type"}
        for tt, I in ctx.arms(f["path"]) or []:
            tr = ret_tree(I) or {}
            tid = None
            for k_, v_ in tr.items():
                if k_[-1:] == ("type_id",) and isinstance(v_, tuple) and v_[:1] == ("TYPEID",) and v_[1] in tps:
                    tid = v_[1]
            if tid is None:
                continue
            want = targs[0].get("name") if targs[0].get("k") == "param" else None
            res.inst(sample={"makes_vector_of": tid, "function": f["path"], "constraint_set": targs[0].get("s")}, func=f["path"])
            ok = any(w.startswith(tid + ": ") and "SatisfyTraits<" in w and (want is None or ("<" + want + ">") in w or True) for w in f.get("where", []))
            if ok:
                res.ok()
            else:
                res.fail(f["path"], "element-type-unconstrained", "%s builds a vector whose element type is its type parameter %s and returns it as %s without the bound "
                         "`%s: SatisfyTraits<..>`: element types lacking a declared constraint (Rc in a `dyn Send` vector) are admitted" % (f["path"], tid, out.get("s"), tid),
                         span=ctx.span_of(f["path"]))
            break
    return res
