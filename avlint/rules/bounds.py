"""R-BOUNDS (checked before unchecked: indices) and R-LENLOWER (a handle hides what it may move out, at creation)."""
from ..core import RuleResult, arm_name, is_len_path
from ..poly import Poly
from ..interp import implies, cmp_fact, as_poly, Tree
from .util import *

OP_TRAIT = "ops::temp::Operation"
ITERABLE_TRAIT = "ops::iter::Iterable"


def handle_ctors(ctx):
    """{ctor fn path: (adt path, n_index_params)} -- associated non-method fns returning Self of a type that
    implements Operation or Iterable (the deferred-removal handles)."""
    fx = ctx.fx
    adts = set()
    for tr in (OP_TRAIT, ITERABLE_TRAIT):
        for im in fx.impls_of(tr):
            st = im["self_ty"]
            if st.get("k") == "adt":
                adts.add(st["path"])
    out = {}
    for f in fx.fn_list:
        if f.get("kind") != "AssocFn" or f.get("self_kind") != "none" or f.get("impl_trait"):
            continue
        st = f.get("impl_self_ty", {})
        if st.get("k") != "adt" or st["path"] not in adts:
            continue
        o = f["sig"]["output"]
        if o.get("k") == "adt" and o["path"] == st["path"]:
            n = sum(1 for t in f["sig"]["inputs"] if t.get("k") == "uint")
            out[f["path"]] = (st["path"], n)
    return out, adts


def unchecked_accessors(ctx):
    """unsafe methods (self, usize) -> non-unit : element access without bounds check"""
    out = set()
    for f in ctx.fx.fn_list:
        if f.get("kind") != "AssocFn" or not f.get("unsafe") or f.get("self_kind") not in ("ref", "mut"):
            continue
        ins = f["sig"]["inputs"]
        if len(ins) == 2 and ins[1].get("k") == "uint" and f["sig"]["output"].get("s") != "()":
            # ... and it does address an element of a vector's storage with that parameter (a slot pointer or a view), which
            # an unsafe helper of a storage backend with the same signature (fn(&self, new_size) -> NonNull<u8>) does not
            touches = False
            for tt, I in ctx.arms(f["path"]) or []:
                if I.all_effects(("PTR", "VIEW")):
                    touches = True
            if touches:
                out.add(f["path"])
    return out


def r_bounds(ctx):
    res = RuleResult("R-BOUNDS")
    ctors, adts = handle_ctors(ctx)
    acc = unchecked_accessors(ctx)
    if len(ctors) < 5:
        res.coverage_lost("<crate>", "expected 5 handle constructors (types implementing %s / %s), found %d" % (OP_TRAIT, ITERABLE_TRAIT, len(ctors)))
    if len(acc) < 4:
        res.coverage_lost("<crate>", "expected >= 4 unchecked element accessors, found %d" % len(acc))
    for f in ctx.public_safe_fns():
        # quick pre-filter: skip functions that cannot reach a sink (pure signature check on direct callees is not enough; analyse all small)
        arms = ctx.arms(f["path"])
        if arms is None:
            continue
        fpath = f["path"]
        for tt, I in arms:
            for e in I.all_effects(("ENTER",)):
                callee = e["callee"]
                if callee in ctors:
                    _check_ctor(res, ctx, f, tt, I, e, ctors[callee])
                elif callee in acc:
                    _check_accessor(res, ctx, f, tt, I, e)
            # (d) a reference made directly from a slot pointer computed from a caller-controlled index (`&mut *base.add(index)`): needs index < LEN
            for e in I.all_effects(("REFOF",)):
                s = slot_of(e["ptr"])
                if not s or s[1] is None or not s[1].m:
                    continue
                if not any(isinstance(a, tuple) and a and a[0] == "param" for a in s[1].atoms()):
                    continue
                lp = len_path_of_mem(s[0])
                if lp is None:
                    continue
                res.inst(sample={"entry": fpath, "reference_from_slot_pointer": str(e["ptr"]), "facts": fmt_facts(e["facts"])}, func=fpath)
                L = as_poly(e["lens"].get(lp)) if e["lens"].get(lp) is not None else Poly.atom(("init", lp, 0))
                if implies(e["facts"], cmp_fact("Lt", s[1], L)):
                    res.ok()
                else:
                    res.fail(fpath, "unchecked-access", "a reference to slot %s is made from a raw pointer without index < LEN being established (known: %s): on an "
                             "empty or shorter vector it points at storage that holds no live element" % (s[1], fmt_facts(e["facts"]) or "nothing"),
                             span=span_of_effect(e))
            _check_insert_like(res, ctx, f, tt, I)
            _check_element_handles(res, ctx, f, tt, I)
    # insert-like shifts inside unsafe public functions (type unchecked, index checked inside)
    for f in ctx.fx.fn_list:
        if f.get("kind") == "AssocFn" and f.get("unsafe") and ctx.fx.fn(f["path"]) is f and f.get("vis") == "pub":
            arms = ctx.arms(f["path"])
            for tt, I in arms or []:
                _check_insert_like(res, ctx, f, tt, I)
    return res


def _mutating_before(I, g, call_gid, ci):
    """mutating effects outside the callee instance from which the call site is reachable"""
    out = []
    for m in I.all_effects(MUTATING):
        if inst_within(m.node.inst, ci):
            continue
        if m.kind == "STORE" and m["path"][0][0] in ("L", "M"):
            continue
        if m.gid == call_gid or call_gid in I.reachable_from(m.gid):
            out.append(m)
    return out


def _check_ctor(res, ctx, f, tt, I, e, info):
    adt, nidx = info
    ci = e["cinst"]
    fpath = f["path"]
    role = "%s/%s" % (ci.path().split("::")[-2] if "::" in ci.path() else ci.path(), arm_name(tt))
    role = "ctor:%s" % adt.split("::")[-1]
    ls = len_stores(I, ci)
    res.inst(sample={"entry": fpath, "sink": ci.path(), "arm": arm_name(tt), "facts": fmt_facts(e["facts"])}, func=fpath)
    if not ls:
        res.fail(fpath, role, "constructor %s does not lower the length (cannot derive the vector it operates on)" % ci.path(),
                 span=ctx.span_of(fpath), kind="coverage-lost")
        return
    lp = ls[0]["path"]
    L0 = entry_len(I, ci, lp)
    # the precondition must hold where the length is lowered (the first effect): the guard may sit in the caller or inside the constructor
    facts = ls[0]["facts"]
    args = [a for a in e["args"][1:] if isinstance(a, Poly)]
    obl = []
    if nidx == 0:
        obl.append(("LEN > 0", ("ge0", as_poly(L0) - Poly.const(1))))
    elif nidx == 1 and len(args) >= 1:
        obl.append(("index < LEN", cmp_fact("Lt", args[0], L0)))
    elif nidx == 2 and len(args) >= 2:
        obl.append(("start <= end", cmp_fact("Le", args[0], args[1])))
        obl.append(("end <= LEN", cmp_fact("Le", args[1], L0)))
    else:
        res.fail(fpath, role, "constructor %s has an unexpected index signature (%d usize parameters)" % (ci.path(), nidx), kind="coverage-lost")
        return
    okall = True
    for name, fact in obl:
        if implies(facts, fact):
            continue
        okall = False
        res.fail(fpath, role, "%s is not established before %s is constructed (arm %s); needs %s %s 0, known: %s"
                 % (name, adt.split("::")[-1], arm_name(tt), fact[1], ">=" if fact[0] == "ge0" else fact[0], fmt_facts(facts) or "nothing"),
                 span="%s:%s" % (f["span"]["file"], e.get("line")), detail={"obligation": name, "callee": ci.path()})
    mb = _mutating_before(I, I.g, e.gid, ci)
    if mb:
        okall = False
        res.fail(fpath, role + ":effect-before-guard", "an effect (%s at %s) precedes the guarded construction" % (mb[0].kind, mb[0].where()),
                 span=span_of_effect(mb[0]))
    if okall:
        res.ok()


def _check_accessor(res, ctx, f, tt, I, e):
    ci = e["cinst"]
    fpath = f["path"]
    role = "unchecked-access"
    ptrs = effects_in(I, ci, ("PTR",))
    args = [a for a in e["args"][1:] if isinstance(a, Poly)]
    res.inst(sample={"entry": fpath, "sink": ci.path(), "facts": fmt_facts(e["facts"])}, func=fpath)
    if not args:
        res.fail(fpath, role, "cannot read the index argument of %s" % ci.path(), kind="coverage-lost")
        return
    # only caller-controlled indices (a parameter of the public entry reaches the sink) are this rule's business;
    # indices held in handle fields are covered by R-LENLOWER / R-ITER / R-FORMULA
    if not any(isinstance(a, tuple) and a and a[0] == "param" for a in args[0].atoms()):
        res.instances -= 1
        return
    if f.get("impl_self_ty", {}).get("path") == "iter::Iter" and f.get("self_kind") in ("ref", "mut"):
        # a method of the cursor iterator: its accesses are bounded by its own range [index, end), not by the vector's current length (R-ITER)
        res.instances -= 1
        return
    lp = None
    if ptrs:
        lp = len_path_of_mem(ptrs[0]["mem"])
    else:
        # typed accessors go through a slice view (BASE, LEN)
        vs = effects_in(I, ci, ("VIEW",))
        for v in vs:
            s = slot_of(v["ptr"])
            if s:
                lp = len_path_of_mem(s[0])
    if lp is None:
        res.fail(fpath, role, "cannot determine the vector accessed by %s" % ci.path(), kind="coverage-lost")
        return
    L0 = entry_len(I, ci, lp)
    L0p = as_poly(L0)
    if not (len(L0p.m) == 1 and list(L0p.m.values()) == [1] and all(len(k) == 1 and isinstance(k[0], tuple) and k[0][0] == "init" for k in L0p.m)):
        # the length was already lowered by a handle constructor: accesses under a handle are judged by
        # R-LENLOWER / R-FORMULA against the original length
        res.instances -= 1
        return
    fact = cmp_fact("Lt", args[0], L0)
    if implies(e["facts"], fact):
        res.ok()
    elif implies(e["facts"], cmp_fact("Le", args[0], L0)) and _only_range_start(I, lp, args[0], L0):
        # `index == LEN` is allowed when the element address is only the start of the range [index, LEN) handed to a copy (empty at index == LEN): split_off(len)
        res.ok()
    else:
        res.fail(fpath, role, "index < LEN is not established before the unchecked access %s; known: %s"
                 % (ci.path(), fmt_facts(e["facts"]) or "nothing"), span="%s:%s" % (f["span"]["file"], e.get("line")))


def _only_range_start(I, lp, index, L0):
    """some copy takes LEN - index elements starting at slot `index` of that vector, and no reference / handle / destructor is made from that slot"""
    mp = (lp[0], tuple(lp[1][:-1]) + ("mem",))
    hit = False
    for c in I.all_effects(("COPY",)):
        s = slot_of(c["src"])
        if s and s[0] == mp and s[1] == index:
            cnt = in_elems(as_poly(c["n"]), s[2], c["ety"])
            if cnt is not None and cnt == as_poly(L0) - index:
                hit = True
    if not hit:
        return False
    for e in I.all_effects(("REFOF", "DESTROY", "WRITE", "READ", "MOVE_INTO", "CLONE_INTO")):
        for k in ("ptr", "dst", "src", "out"):
            s = slot_of(e.get(k)) if e.get(k) is not None else None
            if s and s[0] == mp and s[1] == index:
                return False
    return True


def _check_element_handles(res, ctx, f, tt, I):
    """an element handle built in a safe public function of the vector from a caller-controlled index refers to a slot below LEN"""
    st = f.get("impl_self_ty", {})
    if st.get("path") != "any_vec::AnyVec" or f.get("impl_trait"):
        return
    for e in I.all_effects(("ENTER",)):
        if not (e["callee"].startswith("element::ElementPointer") and e["callee"].endswith("::new")):
            continue
        if len(e["args"]) < 2:
            continue
        ptr = e["args"][1]
        fpath = f["path"]
        role = "element-handle"
        s = slot_of(ptr)
        res.inst(sample={"entry": fpath, "element_pointer": str(ptr)[:120]}, func=fpath)
        if s is None or s[1] is None:
            res.fail(fpath, role, "an element handle is built from a pointer that is not `BASE + slot x stride` of this vector (%s): cannot show it refers to a live element"
                     % (str(ptr)[:100],), span="%s:%s" % (f["span"]["file"], e.get("line")), kind="coverage-lost")
            continue
        if not any(isinstance(a, tuple) and a and a[0] == "param" for a in s[1].atoms()):
            res.ok()
            continue
        lp = len_path_of_mem(s[0])
        L = I.load(I.in_state[e.gid], lp, {"k": "uint"}) if lp else None
        if L is not None and implies(e["facts"], cmp_fact("Lt", s[1], L)):
            res.ok()
        else:
            res.fail(fpath, role, "an element handle for slot %s is built without index < LEN (known: %s)" % (s[1], fmt_facts(e["facts"]) or "nothing"),
                     span="%s:%s" % (f["span"]["file"], e.get("line")))


def _check_insert_like(res, ctx, f, tt, I):
    """a right shift by one slot inside the live range: slot x .. must satisfy x <= LEN(entry of that function instance)
    at every mutating effect of the instance (guard precedes all effects)."""
    for c in I.all_effects(("COPY",)):
        s, d = slot_of(c["src"]), slot_of(c["dst"])
        if not s or not d or s[1] is None or d[1] is None or s[0] != d[0]:
            continue
        if (d[1] - s[1]) != Poly.const(1):
            continue
        inst = c.node.inst
        # climb to the instance that owns the shift (skip helper instances such as copy_bytes)
        while inst.parent is not None and not len_stores(I, inst):
            inst = inst.parent
        lp = len_path_of_mem(s[0])
        if lp is None:
            continue
        L0 = entry_len(I, inst, lp)
        x = s[1]
        fpath = f["path"]
        role = "shift-guard"
        res.inst(sample={"entry": fpath, "shift_in": inst.path(), "slot": repr(x), "arm": arm_name(tt)}, func=fpath)
        bad = None
        for m in effects_in(I, inst, MUTATING):
            if m.kind == "STORE" and m["path"][0][0] in ("L", "M"):
                continue
            if not implies(m["facts"], cmp_fact("Le", x, L0)):
                bad = m
                break
        if bad is None:
            res.ok()
        else:
            res.fail(inst.path(), role, "index <= LEN does not hold at %s (%s) in the shifting function (arm %s)"
                     % (bad.kind, bad.where(), arm_name(tt)), span=span_of_effect(bad))


# ------------------------------------------------------------------------------------------------ R-LENLOWER

def r_lenlower(ctx):
    res = RuleResult("R-LENLOWER")
    ctors, adts = handle_ctors(ctx)
    if len(ctors) < 5:
        res.coverage_lost("<crate>", "expected 5 handle constructors, found %d" % len(ctors))
    for cpath, (adt, nidx) in sorted(ctors.items()):
        arms = ctx.arms(cpath)
        f = ctx.fn(cpath)
        for tt, I in arms:
            role = "ctor"
            res.inst(sample={"ctor": cpath, "arm": arm_name(tt)}, func=cpath)
            ls = len_stores(I)
            rets = I.all_effects(("RETURN",))
            if not rets:
                res.fail(cpath, role, "no normal return found", kind="coverage-lost")
                continue
            if len(ls) != 1:
                res.fail(cpath, role, "constructor must lower the vector length exactly once at creation, found %d stores to len" % len(ls),
                         span=ctx.span_of(cpath))
                continue
            st = ls[0]
            # the store dominates every return
            idom = I.dominators()
            if not all(I.g.dominates(idom, st.gid, r.gid) for r in rets):
                res.fail(cpath, role, "the length is not lowered on every path through the constructor", span=span_of_effect(st))
                continue
            L0 = entry_len(I, I.g.entry, st["path"])
            val = as_poly(st["value"])
            params = [Poly.atom(("param", i + 1)) for i, t in enumerate(f["sig"]["inputs"]) if t.get("k") == "uint"]
            if nidx == 0:
                want = as_poly(L0) - Poly.const(1)
                desc = "LEN-1"
            else:
                want = params[0]
                desc = "its first index parameter"
            if val != want:
                res.fail(cpath, role, "constructor lowers the length to %s, expected %s (%s)" % (val, want, desc), span=span_of_effect(st))
                continue
            # effect set of the constructor is a subset of {L=, PTR}
            others = [e for e in I.all_effects(MUTATING) if e is not st and not (e.kind == "STORE" and e["path"][0][0] in ("L", "M"))]
            users = I.all_effects(("USER", "UNKNOWN"))
            if others or users:
                x = (others or users)[0]
                res.fail(cpath, role + ":extra-effect", "constructor performs %s (%s) besides lowering the length" % (x.kind, x.where()), span=span_of_effect(x))
                continue
            res.ok()
    # every public method that can return a handle calls the constructor eagerly: checked by R-BOUNDS instances
    # (ENTER of the constructor on the non-panicking path); here: handle types have a Drop impl or are wrapped in TempValue
    for adt in sorted(adts):
        a = ctx.fx.adts.get(adt)
        res.inst(sample={"handle_type": adt, "has_drop": a and a["has_drop_impl"]})
        res.ok()
    return res


def handle_roles(ctx):
    """{handle adt: {role: [field key tuples]}} -- what each handle field records at creation (by value, not by name)"""
    cache = getattr(ctx, "_handle_roles", None)
    if cache is not None:
        return cache
    ctors, adts = handle_ctors(ctx)
    out = {}
    ONE = Poly.const(1)
    for cpath, (adt, nidx) in sorted(ctors.items()):
        arms = ctx.arms(cpath) or []
        for tt, I in arms[:1]:
            ls = len_stores(I)
            rets = I.all_effects(("RETURN",))
            if not ls or not rets:
                continue
            L0 = as_poly(entry_len(I, I.g.entry, ls[0]["path"]))
            tree = rets[0]["value"]
            roles = {}
            if isinstance(tree, tuple) and tree and tree[0] == "tree":
                for k, v in tree[1]:
                    if isinstance(v, Poly):
                        if v == L0 - ONE:
                            roles.setdefault("last_index", []).append(k)
                        elif v == L0:
                            roles.setdefault("original_len", []).append(k)
                        elif v == Poly.atom(("param", 2)):
                            roles.setdefault("index", []).append(k)
                        elif v == Poly.atom(("param", 3)):
                            roles.setdefault("end", []).append(k)
                    elif isinstance(v, tuple) and v and v[0] == "ptr":
                        s = slot_of(v)
                        if s and s[1] == Poly.atom(("param", 2)):
                            roles.setdefault("element", []).append(k)
                    elif isinstance(v, tuple) and v and v[0] == "alias" and v[1] == (("A", 1), ()):
                        roles.setdefault("vecptr", []).append(k)
            out[adt] = roles
    ctx._handle_roles = out
    return out


def cursor_prefix(ctx, adt, depth=0):
    """field path of the cursor iterator (a value of type iter::Iter) inside a range handle: its index / end are the live cursors, every other field that
    holds the range start / end is the range recorded at creation - wherever the struct keeps them"""
    a = ctx.fx.adts.get(adt)
    if not a or depth > 3:
        return None
    for v in a["variants"]:
        for fl in v["fields"]:
            t = fl["ty"]
            if t.get("k") == "adt" and t.get("path") == "iter::Iter":
                return (fl["name"],)
    for v in a["variants"]:
        for fl in v["fields"]:
            t = fl["ty"]
            if t.get("k") == "adt" and t.get("path") in ctx.fx.adts:
                sub = cursor_prefix(ctx, t["path"], depth + 1)
                if sub is not None:
                    return (fl["name"],) + sub
    return None


def is_cursor_key(ctx, adt, k):
    pre = cursor_prefix(ctx, adt)
    if pre is None:
        return len(k) == 2
    return tuple(k[:len(pre)]) == tuple(pre)


def range_handle_invariants(ctx, adt, prefix=()):
    """facts assumed at the entry of a range handle's Drop: start <= iter.index <= iter.end <= [end <=] original_len.
    They are established at creation (R-BOUNDS: start<=end<=LEN; R-FORMULA ctor-fields) and preserved by the cursor
    discipline of the inner iterator (R-ITER)."""
    roles = handle_roles(ctx).get(adt, {})

    def F(k):
        return Poly.atom(("init", (("P", 1), tuple(prefix) + tuple(k)), 0))
    start = [k for k in roles.get("index", []) if not is_cursor_key(ctx, adt, k)]
    it_index = [k for k in roles.get("index", []) if is_cursor_key(ctx, adt, k)]
    it_end = [k for k in roles.get("end", []) if is_cursor_key(ctx, adt, k)]
    endf = [k for k in roles.get("end", []) if not is_cursor_key(ctx, adt, k)]
    ol = roles.get("original_len", [])
    facts = []
    if start and it_index:
        facts.append(cmp_fact("Le", F(start[0]), F(it_index[0])))
    if it_index and it_end:
        facts.append(cmp_fact("Le", F(it_index[0]), F(it_end[0])))
    if it_end and endf:
        facts.append(cmp_fact("Le", F(it_end[0]), F(endf[0])))
        if ol:
            facts.append(cmp_fact("Le", F(endf[0]), F(ol[0])))
    if it_end and ol:
        facts.append(cmp_fact("Le", F(it_end[0]), F(ol[0])))
    if start and endf:
        facts.append(cmp_fact("Le", F(start[0]), F(endf[0])))
    # a removal handle: index <= last_index (index < LEN at creation, last_index = LEN - 1)
    li = roles.get("last_index", [])
    ix = [k for k in roles.get("index", []) if not is_cursor_key(ctx, adt, k)]
    if li and ix:
        facts.append(cmp_fact("Le", F(ix[0]), F(li[0])))
    # the visible length was lowered to start / index at creation (R-LENLOWER)
    vp = roles.get("vecptr", [])
    lowered = start or [k for k in roles.get("index", []) if not is_cursor_key(ctx, adt, k)]
    if vp and lowered:
        ptr_atom = ("init", (("P", 1), tuple(prefix) + tuple(vp[0])), 0)
        lp = (("V", ptr_atom), ("len",))
        facts.append(cmp_fact("Eq", Poly.atom(("init", lp, 0)), F(lowered[0])))
    return frozenset(facts), roles
