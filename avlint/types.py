"""Type terms from the fact base: substitution, unification, impl lookup (resolution of trait-method
calls once the receiver type is known), projection normalisation."""


def ty_str(t):
    k = t.get("k")
    if k == "param":
        return t["name"]
    if k == "adt":
        args = [ty_str(a) for a in t.get("args", []) if a.get("k") != "region"]
        return t["path"] + ("<%s>" % ", ".join(args) if args else "")
    if k == "ptr":
        return "*%s %s" % ("mut" if t["mut"] else "const", ty_str(t["to"]))
    if k == "ref":
        return "&%s%s" % ("mut " if t["mut"] else "", ty_str(t["to"]))
    if k == "alias":
        a = t.get("args", [])
        if a:
            tr = t["path"].rsplit("::", 1)
            return "<%s as %s>::%s" % (ty_str(a[0]), tr[0], tr[1])
        return t["path"]
    if k == "tuple":
        return "(%s)" % ", ".join(ty_str(e) for e in t["elems"])
    if k == "array":
        return "[%s; %s]" % (ty_str(t["to"]), t.get("len"))
    if k == "slice":
        return "[%s]" % ty_str(t["to"])
    if k in ("const", "region"):
        return t.get("s", "?")
    return t.get("s", "?")


def mk(t, **kw):
    r = dict(t)
    r.update(kw)
    r["s"] = ty_str(r)
    return r


class TypeCx:
    def __init__(self, facts):
        self.fx = facts

    # ------------------------------------------------------------ substitution
    def subst(self, t, env):
        if not env:
            return t
        k = t.get("k")
        if k == "param":
            r = env.get(t["name"])
            return r if r is not None else t
        if k == "const":
            r = env.get(t.get("s"))
            return r if r is not None else t
        if k in ("ptr", "ref", "array", "slice"):
            return mk(t, to=self.subst(t["to"], env))
        if k == "adt" or k == "fndef":
            return mk(t, args=[self.subst(a, env) for a in t.get("args", [])])
        if k == "tuple":
            return mk(t, elems=[self.subst(a, env) for a in t["elems"]])
        if k == "alias":
            nt = mk(t, args=[self.subst(a, env) for a in t.get("args", [])])
            return self.normalize(nt)
        return t

    def normalize(self, t):
        """<Self as Trait>::Name with a concrete Self -> the impl's associated type."""
        if t.get("k") != "alias" or not t.get("args"):
            return t
        self_ty = t["args"][0]
        if self_ty.get("k") in ("param", "alias"):
            return t
        trait, name = t["path"].rsplit("::", 1)
        hit = self.find_impl(trait, t["args"])
        if hit is None:
            return t
        im, binds = hit
        for it in im["items"]:
            if it["name"] == name and "ty" in it:
                return self.subst(it["ty"], binds)
        return t

    # ------------------------------------------------------------ unification (pattern may contain params)
    def unify(self, pat, t, binds):
        pk = pat.get("k")
        if pk == "param":
            n = pat["name"]
            if n in binds:
                return ty_str(binds[n]) == ty_str(t)
            binds[n] = t
            return True
        if pk == "region" or t.get("k") == "region":
            return True
        if pk == "const":
            n = pat.get("s")
            if n in binds:
                return binds[n].get("s") == t.get("s")
            # const generic parameter or literal
            if n and n[0].isalpha() or "::" in (n or ""):
                binds[n] = t
                return True
            return n == t.get("s")
        if pk != t.get("k"):
            return False
        if pk == "adt":
            if pat["path"] != t["path"]:
                return False
            pa, ta = pat.get("args", []), t.get("args", [])
            if len(pa) != len(ta):
                return False
            return all(self.unify(a, b, binds) for a, b in zip(pa, ta))
        if pk in ("ptr", "ref"):
            return pat["mut"] == t["mut"] and self.unify(pat["to"], t["to"], binds)
        if pk in ("array", "slice"):
            return self.unify(pat["to"], t["to"], binds)
        if pk == "tuple":
            return len(pat["elems"]) == len(t["elems"]) and all(
                self.unify(a, b, binds) for a, b in zip(pat["elems"], t["elems"]))
        if pk == "alias":
            return ty_str(pat) == ty_str(t)
        if pk == "dyn":
            return pat.get("s") == t.get("s")
        return pat.get("s") == t.get("s")

    def find_impl(self, trait, trait_args):
        """trait_args[0] = Self. Returns (impl, bindings) or None. Param Self -> None."""
        self_ty = trait_args[0]
        if self_ty.get("k") in ("param", "alias"):
            return None
        best = None
        for im in self.fx.impls:
            if im.get("trait") != trait or im.get("negative"):
                continue
            ia = im.get("trait_args", [])
            if len(ia) != len(trait_args):
                continue
            binds = {}
            ok = True
            for a, b in zip(ia, trait_args):
                if not self.unify(a, b, binds):
                    ok = False
                    break
            if ok:
                # prefer non-blanket impls
                blanket = ia[0].get("k") == "param"
                if best is None or (best[2] and not blanket):
                    best = (im, binds, blanket)
        if best is None:
            return None
        return best[0], best[1]

    def is_unknown_marker(self, t):
        return t.get("k") == "adt" and t["path"] == "any_value::Unknown"

    def concrete(self, t):
        k = t.get("k")
        if k in ("param", "alias"):
            return False
        if k == "adt":
            return True
        return True
